#!/usr/bin/env python3
"""Sensitivity self-test: apply small deliberate breakages to a scratch worktree of /repo
(never to /repo itself) and confirm the named check raises a VIOLATION within its quick budget.

usage: tools/mutate.py [name ...]      (no names = all mutants in tools/mutants.json)
Each mutant: {"name", "file", "old", "new", "checks": ["C22", ...], "count": N}
"""
import json, os, subprocess, sys, shutil, tempfile

VERIF = os.path.dirname(os.path.dirname(os.path.abspath(__file__)))
muts = json.load(open(os.path.join(VERIF, "tools", "mutants.json")))
names = sys.argv[1:]
scratch = tempfile.mkdtemp(prefix="verif-mut-", dir="/tmp")
wt = os.path.join(scratch, "wt")
subprocess.run(["git", "-C", "/repo", "worktree", "add", "--detach", wt, "HEAD"], check=True, capture_output=True)
# carry over uncommitted changes of /repo (fix candidates under test)
diff = subprocess.run(["git", "-C", "/repo", "diff", "HEAD"], capture_output=True).stdout
if diff.strip():
    subprocess.run(["git", "-C", wt, "apply"], input=diff, check=True)
results = []
try:
    for m in muts:
        if names and m["name"] not in names:
            continue
        path = os.path.join(wt, m["file"])
        src = open(path).read()
        if src.count(m["old"]) != 1:
            print("MUTANT %-40s BROKEN: pattern occurs %d times" % (m["name"], src.count(m["old"])))
            results.append((m["name"], "broken"))
            continue
        open(path, "w").write(src.replace(m["old"], m["new"]))
        try:
            for chk in m["checks"]:
                env = dict(os.environ, VERIF_REPO=wt, VERIF_NO_RECHECK="1", VERIF_REPLAY_DIR=os.path.join(scratch, "replays"))
                p = subprocess.run([os.path.join(VERIF, "check"), chk, "--count", str(m.get("count", 600)),
                                    "--no-evidence", "--no-minimise", "--seed", str(m.get("seed", 0))],
                                   capture_output=True, text=True, env=env, timeout=1800)
                caught = "VIOLATION property=" in p.stdout
                if not caught and os.environ.get("MUTATE_DEBUG"):
                    print(p.stdout[-1500:]); print(p.stderr[-1500:])
                line = [l for l in p.stdout.splitlines() if "clause=" in l][:1]
                print("MUTANT %-40s %-4s %s rc=%d %s" % (m["name"], chk, "CAUGHT" if caught else "MISSED", p.returncode, line[0].strip()[:110] if line else ""))
                results.append((m["name"] + ":" + chk, "caught" if caught else "missed"))
        finally:
            open(path, "w").write(src)
finally:
    subprocess.run(["git", "-C", "/repo", "worktree", "remove", "--force", wt], capture_output=True)
    shutil.rmtree(scratch, ignore_errors=True)
    # replays written while testing mutants are not findings on /repo
missed = [r for r in results if r[1] != "caught"]
print("%d mutant/check pairs, %d missed" % (len(results), len(missed)))
sys.exit(1 if missed else 0)
