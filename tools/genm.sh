#!/bin/bash
# tools/genm.sh ID profile 'focus-arg' quick thorough   -> writes checks/ID.py for a mutsim profile
id=$1; prof=$2; focus=$3; qn=$4; tn=$5
sed -e "s/C09/$id/g" -e "s/mutsim single profile/mutsim $prof profile/" -e "s/gen_single(seed, tier, \"$id\")/gen_$prof(seed, tier$focus)/" -e "s/exec_single/exec_$prof/" -e "s/\"quick\": 900, \"thorough\": 20000/\"quick\": $qn, \"thorough\": $tn/" /verif/checks/C09.py > /verif/checks/$id.py
