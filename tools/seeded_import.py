#!/usr/bin/env python3
"""Copy confirmed sub-agent changes from /tmp/sa/<Cnn>-a/out/{A,B} into /verif/seeded/<Cnn>-{A,B}/ with a meta.json."""
import json, os, re, shutil, sys, glob
VERIF = os.path.dirname(os.path.dirname(os.path.abspath(__file__)))
props = {json.loads(l)["id"]: json.loads(l) for l in open(os.path.join(VERIF, "properties.jsonl"))}
for d in sorted(glob.glob("/tmp/sa/C*-[abc]/out/[AB]")):
    ev = os.path.join(d, "eval.json")
    if not os.path.exists(ev):
        print("no eval:", d); continue
    e = json.load(open(ev))
    pid, rnd = d.split("/")[3].split("-")
    letter = os.path.basename(d)
    if rnd == "b":          # second round of sub-agents (told which two mechanisms were already taken): changes C and D
        letter = {"A": "C", "B": "D"}[letter]
    if rnd == "c":          # third round (told the four mechanisms already taken): change E
        letter = {"A": "E", "B": "F"}[letter]
    sid = "%s-%s" % (pid, letter)
    conf = e.get("confirmed")
    if conf is None:
        # later re-evaluations used --skip-confirm: keep the first confirmation recorded in evals.log
        for line in (open("/tmp/sa/evals.log") if os.path.exists("/tmp/sa/evals.log") else []):
            if line.startswith("{") and ('"dir":"%s"' % d) in line:
                conf = json.loads(line).get("confirmed")
                break
    if not conf:
        print("NOT CONFIRMED:", d); continue
    out = os.path.join(VERIF, "seeded", sid)
    os.makedirs(out, exist_ok=True)
    for f in ("patch.diff", "demo.py", "notes.md"):
        shutil.copy(os.path.join(d, f), os.path.join(out, f))
    notes = open(os.path.join(d, "notes.md")).read()
    m = re.search(r"(?is)(#+[^\n]*(trigger|needed|manifest)[^\n]*\n)(.*?)(\n#+ |\Z)", notes)
    needs = (m.group(3) if m else notes)[:1500].strip()
    files = [l[6:] for l in open(os.path.join(d, "patch.diff")) if l.startswith("+++ b/")]
    meta = {"id": sid, "property": pid, "property_title": props[pid]["title"], "files_changed": [f.strip() for f in files],
            "needs_to_manifest": needs,
            "origin": "written by an independent sub-agent given only the property text and a scratch worktree of /repo" + (
                "; second round: also told which two mechanisms (file, function, one line) earlier sub-agents had used, to force a different one" if rnd == "b" else
                "; third round: also told which four mechanisms (file, function, one line) earlier sub-agents had used, to force a different one" if rnd == "c" else ""),
            "confirmation": {"ran": ["demo.py on a clean scratch worktree (exit 0 expected)", "git apply patch.diff; demo.py (non-zero exit expected)",
                                     "pinned test suite with the patch applied (151 passed expected)"],
                             "demo_clean_rc": 0, "demo_patched_rc": 1, "pinned_passed": 151, "tool": "tools/seeded_eval.py"}}
    old = os.path.join(out, "meta.json")
    if os.path.exists(old):
        o = json.load(open(old))
        if "caught_by" in o:
            meta["caught_by"] = o["caught_by"]
    json.dump(meta, open(old, "w"), indent=1)
    print("imported", sid)
