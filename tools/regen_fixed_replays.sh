#!/bin/bash
# Re-create the replay files of *fixed* findings against the tree just before each fix (scratch worktree, never /repo).
set -e
V=/verif
S=$(mktemp -d /tmp/verif-prefix-XXXX)
regen() { # commit check count outname
  git -C /repo worktree add --detach $S/wt "$1^" >/dev/null 2>&1
  rm -rf $S/replays; mkdir -p $S/replays
  VERIF_REPO=$S/wt VERIF_REPLAY_DIR=$S/replays VERIF_NO_RECHECK=1 $V/check $2 --count $3 --no-evidence >/dev/null 2>&1 || true
  f=$(grep -l "\"clause\": \"$5" $S/replays/*.json 2>/dev/null | head -1)
  if [ -n "$f" ]; then cp "$f" $V/replays/known/$4; echo "ok $4"; else echo "MISSING $4"; fi
  git -C /repo worktree remove --force $S/wt
}
regen 4ebc13e C26 300 C26-age-no-override.json C26.expired-share-kept
regen 9deeb29 C27 40 C27-lease-crawler-resume.json C27.crawler-died
regen 0fa7692 C27 60 C27-history-not-atomic.json C27.crawler-died
regen e9c2403 C07 400 C07-readonly-gets-foreign-share.json C07.readonly-gets-new-share
regen 867d381 C07 3000 C07-writable-peer-dropped.json C07.not-maximal
regen 732d0ab C46 400 C46-active-segment-not-cleared.json C46.read-hung
regen 025e36c C46 600 C46-truncated-header-livelock.json C46.livelock
regen 7875a27 C45 400 C45-forged-block-tree.json C45.bad-share-reported-good
regen d9e7927 C45 400 C45-truncated-share-assertion.json C45.check-failed
regen 52bf84d C09 300 C09-stale-size-truncates.json C09.contents
regen a952943 C09 300 C09-append-at-segment-boundary.json C09.faultfree-write-failed
regen 3d578af C10 800 C10-servermap-premature-done.json C10.unavailable
regen 7074209 C10 1600 C10-retrieve-duplicate-share-livelock.json C10.livelock
regen a67e08b C12 600 C12-modify-retry-keyerror.json C12.wrong-error
regen 94d30ff C14 600 C14-repair-discards-servermap.json C14.repair-failed
regen 242469c C35 2000 C35-indexerror-leaves-unvalidated.json C35.state-changed-on-reject
regen 368e37e C39 3000 C39-overwrite-merge.json C39.final-contents
regen 55c8edc C34 400 C34-malformed-element-aborts-batch.json C34.good-announcement-suppressed
regen 60a3b33 C32 100 C32-preferred-peers-str-vs-bytes.json C32.preferred-not-first
regen 2fef311 C44 600 C44-late-second-uploader-attributeerror.json C44.faultfree-upload-failed
rm -rf $S
