#!/usr/bin/env python3
"""Confirm and evaluate one seeded change (a sub-agent's patch + demonstration).

usage: tools/seeded_eval.py DIR [--checks C01,C04] [--count N] [--tier quick] [--skip-confirm] [--seeds 0,1]
DIR holds patch.diff and demo.py (a sub-agent's out/A, or /verif/seeded/<id>/).

Steps, all in a scratch worktree of /repo under /tmp (removed afterwards; /repo is never touched):
  1. demo on the clean tree          -> must exit 0
  2. git apply patch.diff; demo      -> must exit non-zero
  3. pinned test suite with the patch -> must pass (151)
  4. each named check with VERIF_REPO=<worktree>  -> CAUGHT (VIOLATION line) / MISSED
Prints one JSON line (also written to DIR/eval.json).
"""
import argparse, json, os, re, shutil, subprocess, sys, tempfile, time

VERIF = os.path.dirname(os.path.dirname(os.path.abspath(__file__)))
PINNED = """test_abbreviate test_auth test_base32 test_base62 test_codec test_configutil test_crypto test_deferredutil
test_dictutil test_hashutil test_humanreadable test_log test_monitor test_netstring test_observer test_spans
test_statistics""".split()


def run(cmd, **kw):
    return subprocess.run(cmd, capture_output=True, text=True, **kw)


def main():
    ap = argparse.ArgumentParser()
    ap.add_argument("dir")
    ap.add_argument("--checks", default="")
    ap.add_argument("--count", type=int)
    ap.add_argument("--tier", default="quick")
    ap.add_argument("--seeds", default="0")
    ap.add_argument("--skip-confirm", action="store_true")
    ap.add_argument("--keep-replays", action="store_true")
    a = ap.parse_args()
    d = os.path.abspath(a.dir)
    patch = os.path.join(d, "patch.diff")
    demo = os.path.join(d, "demo.py")
    scratch = tempfile.mkdtemp(prefix="verif-se-", dir="/tmp")
    wt = os.path.join(scratch, "wt")
    out = {"dir": d}
    run(["git", "-C", "/repo", "worktree", "add", "--detach", wt, "HEAD"], check=True)
    try:
        env = dict(os.environ, PYTHONPATH=wt + "/src:" + os.path.join(VERIF, "shims"), PYTHONDONTWRITEBYTECODE="1")
        env.pop("VERIF_REPO", None)
        if not a.skip_confirm:
            p = run(["timeout", "300", "/venv/bin/python", demo], env=env, cwd=scratch)
            out["demo_clean_rc"] = p.returncode
            out["demo_clean_tail"] = (p.stdout + p.stderr)[-300:]
        p = run(["git", "-C", wt, "apply", patch])
        if p.returncode:
            out["apply_error"] = p.stderr[-500:]
            print(json.dumps(out)); return 2
        out["files"] = run(["git", "-C", wt, "diff", "--stat"]).stdout.strip().splitlines()[-1:]
        if not a.skip_confirm:
            p = run(["timeout", "300", "/venv/bin/python", demo], env=env, cwd=scratch)
            out["demo_patched_rc"] = p.returncode
            out["demo_patched_tail"] = (p.stdout + p.stderr)[-600:]
            t0 = time.time()
            p = run(["timeout", "900", "/venv/bin/python", "-m", "pytest", "-q", "-p", "no:cacheprovider", "--timeout=900",
                     "--continue-on-collection-errors"] + ["src/allmydata/test/%s.py" % t for t in PINNED], cwd=wt,
                    env=dict(os.environ, PYTHONDONTWRITEBYTECODE="1"))
            m = re.search(r"(\d+) passed", p.stdout)
            out["pinned_passed"] = int(m.group(1)) if m else 0
            out["pinned_failed"] = bool(re.search(r"\d+ (failed|error)", p.stdout))
            out["pinned_s"] = round(time.time() - t0)
            out["confirmed"] = (out["demo_clean_rc"] == 0 and out["demo_patched_rc"] not in (0, 124)
                                and out["pinned_passed"] == 151 and not out["pinned_failed"])
        out["checks"] = {}
        rdir = os.path.join(d, "replays") if a.keep_replays else os.path.join(scratch, "replays")
        for chk in [c for c in a.checks.split(",") if c]:
            res = []
            for seed in a.seeds.split(","):
                cenv = dict(os.environ, VERIF_REPO=wt, VERIF_NO_RECHECK="1", VERIF_REPLAY_DIR=rdir)
                cmd = [os.path.join(VERIF, "check"), chk, "--tier", a.tier, "--no-evidence", "--no-minimise", "--seed", seed]
                if a.count:
                    cmd += ["--count", str(a.count)]
                t0 = time.time()
                p = run(cmd, env=cenv, timeout=7200)
                caught = "VIOLATION property=" in p.stdout
                lines = [l.strip()[:200] for l in p.stdout.splitlines() if "clause=" in l][:4]
                res.append({"seed": seed, "caught": caught, "rc": p.returncode, "clauses": lines,
                            "s": round(time.time() - t0), "tail": p.stdout.strip().splitlines()[-1:] })
                if caught:
                    break
            out["checks"][chk] = res
    finally:
        run(["git", "-C", "/repo", "worktree", "remove", "--force", wt])
        shutil.rmtree(scratch, ignore_errors=True)
    with open(os.path.join(d, "eval.json"), "w") as f:
        json.dump(out, f, indent=1)
    print(json.dumps(out, indent=1))
    return 0


if __name__ == "__main__":
    sys.exit(main())
