#!/usr/bin/env python3
"""Run every seeded change in /verif/seeded against the check of its own property (quick tier, VERIF_SEED 0 then 1)
in scratch worktrees; record the outcome in each meta.json ('caught_by') and print the matrix.
usage: tools/seeded_matrix.py [-j N] [id ...]"""
import json, os, subprocess, sys, glob
from concurrent.futures import ThreadPoolExecutor
VERIF = os.path.dirname(os.path.dirname(os.path.abspath(__file__)))
args = sys.argv[1:]
jobs = 3
if args[:1] == ["-j"]:
    jobs = int(args[1]); args = args[2:]
dirs = sorted(glob.glob(os.path.join(VERIF, "seeded", "C*-[ABCDEF]")))
if args:
    dirs = [d for d in dirs if os.path.basename(d) in args]


def one(d):
    meta = json.load(open(os.path.join(d, "meta.json")))
    chk = meta["property"]
    p = subprocess.run([os.path.join(VERIF, "tools", "seeded_eval.py"), d, "--checks", chk, "--skip-confirm", "--seeds", "0,1"],
                       capture_output=True, text=True)
    try:
        ev = json.loads(p.stdout)
    except Exception:
        return os.path.basename(d), None, p.stdout[-300:] + p.stderr[-300:]
    res = ev["checks"].get(chk, [])
    caught = any(r["caught"] for r in res)
    clauses = sorted(set(c.split(" sig=")[0].replace("clause=", "") for r in res for c in r["clauses"]))
    meta = json.load(open(os.path.join(d, "meta.json")))
    meta["caught_by"] = {chk: {"caught": caught, "tier": "quick", "verif_seed_tried": [r["seed"] for r in res], "clauses": clauses,
                               "wall_s": sum(r["s"] for r in res)}}
    json.dump(meta, open(os.path.join(d, "meta.json"), "w"), indent=1)
    try:
        os.unlink(os.path.join(d, "eval.json"))
    except OSError:
        pass
    return os.path.basename(d), caught, ",".join(clauses)


with ThreadPoolExecutor(jobs) as ex:
    out = list(ex.map(one, dirs))
missed = 0
for sid, caught, info in out:
    print("%-8s %-7s %s" % (sid, {True: "CAUGHT", False: "MISSED", None: "ERROR"}[caught], info))
    missed += (caught is not True)
print("%d seeded changes, %d not caught by the check of their own property" % (len(out), missed))
sys.exit(1 if missed else 0)
