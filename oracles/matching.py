"""Independent maximum bipartite matching and constrained placement optimum (C06-C08)."""


def max_matching(edges):
    """edges: dict left -> iterable of right.  Returns size of a maximum matching (augmenting paths)."""
    match_r = {}

    def try_left(u, seen):
        for v in edges.get(u, ()):
            if v in seen:
                continue
            seen.add(v)
            if v not in match_r or try_left(match_r[v], seen):
                match_r[v] = u
                return True
        return False
    n = 0
    for u in sorted(edges, key=repr):
        if try_left(u, set()):
            n += 1
    return n


def happiness(sharemap):
    """sharemap: shnum -> set(servers).  Maximum matching servers<->shares."""
    return max_matching({sh: sorted(srvs, key=repr) for sh, srvs in sharemap.items()})


def best_placement_spread(shares, writable, readonly, existing):
    """Maximum number of distinct servers usable when every share in `shares` may go to any
    writable server, and to a read-only server only if that server already holds it.
    existing: server -> set(shares).  (= max matching in that bipartite graph)"""
    edges = {}
    for sh in shares:
        cands = set(writable)
        for s in readonly:
            if sh in existing.get(s, ()):
                cands.add(s)
        edges[sh] = sorted(cands, key=repr)
    return max_matching(edges)
