"""Independent validation and decoding of immutable shares (hashlib + zfec + AES only).

Ground truth about 'intact', 'valid' and 'recoverable' never comes from the code under test
(DESIGN §4a).  Nothing here imports allmydata.
"""
import struct

import zfec
from cryptography.hazmat.primitives.ciphers import Cipher, algorithms, modes

from oracles import refhash as H


class Bad(Exception):
    pass


def split_container(raw):
    """Server-side immutable container -> (version, share bytes, n_leases)."""
    if len(raw) < 12:
        raise Bad("container shorter than its header")
    ver, _unused, nleases = struct.unpack(">LLL", raw[:12])
    if ver not in (1, 2):
        raise Bad("container version %d" % ver)
    end = len(raw) - nleases * 72
    if end < 12:
        raise Bad("lease area larger than file")
    return ver, raw[12:end], nleases


def parse_share(share, lenient_ueb=False):
    if len(share) < 4:
        raise Bad("share shorter than version word")
    (ver,) = struct.unpack(">L", share[:4])
    if ver == 1:
        fmt, hdr = ">LLLLLLLLL", 0x24
        fs = ">L"
    elif ver == 2:
        fmt, hdr = ">LQQQQQQQQ", 0x44
        fs = ">Q"
    else:
        raise Bad("share version %d" % ver)
    if len(share) < hdr:
        raise Bad("share shorter than offset table")
    (_v, block_size, data_size, o_data, o_pt, o_ct, o_bh, o_sh, o_ueb) = struct.unpack(fmt, share[:hdr])
    # (the plaintext_hash_tree offset is unused by every reader; it is not constrained here)
    if not (hdr <= o_data <= o_ct <= o_bh <= o_sh <= o_ueb <= len(share)):
        raise Bad("offsets not monotone / out of range")
    fsz = struct.calcsize(fs)
    if o_ueb + fsz > len(share):
        raise Bad("UEB length field past end")
    (ueb_len,) = struct.unpack(fs, share[o_ueb:o_ueb + fsz])
    ueb = share[o_ueb + fsz:o_ueb + fsz + ueb_len]
    if len(ueb) != ueb_len and not lenient_ueb:
        # (a reader whose over-long read is clipped by the server still obtains the whole UEB when
        # the UEB is the last thing in the share; lenient_ueb models that reader)
        raise Bad("UEB truncated")
    return {"version": ver, "block_size": block_size, "data_size": data_size,
            "data": share[o_data:o_ct], "crypttext_tree": share[o_ct:o_bh], "block_tree": share[o_bh:o_sh],
            "share_chain": share[o_sh:o_ueb], "ueb": ueb,
            "offsets": {"data": o_data, "plaintext_hash_tree": o_pt, "crypttext_hash_tree": o_ct,
                        "block_hashes": o_bh, "share_hashes": o_sh, "uri_extension": o_ueb},
            "fieldsize": fsz, "header_size": hdr}


def unpack_ueb(data):
    d = {}
    while data:
        colon = data.index(b":")
        key = data[:colon].decode("ascii")
        data = data[colon + 1:]
        colon = data.index(b":")
        ln = int(data[:colon])
        data = data[colon + 1:]
        d[key] = data[:ln]
        if data[ln:ln + 1] != b",":
            raise Bad("UEB netstring")
        data = data[ln + 1:]
    for k in ("size", "segment_size", "num_segments", "needed_shares", "total_shares"):
        if k in d:
            d[k] = int(d[k])
    return d


def pack_ueb(d):
    out = []
    for k in sorted(d):
        v = d[k]
        if isinstance(v, int):
            v = b"%d" % v
        out.append(k.encode("ascii") + b":" + H.ns(v))
    return b"".join(out)


def seg_geometry(size, segment_size, k):
    """-> (num_segments, [block size per segment], [segment length per segment])"""
    if size == 0:
        return 0, [], []
    nseg = (size + segment_size - 1) // segment_size
    blocks, segs = [], []
    for i in range(nseg):
        ln = segment_size if i < nseg - 1 else (size - segment_size * (nseg - 1))
        padded = ((ln + k - 1) // k) * k
        blocks.append(padded // k)
        segs.append(ln)
    return nseg, blocks, segs


def validate_share(share, shnum, cap, lenient_ueb=False):
    """cap: dict(ueb_hash, k, n, size).  Returns (ueb dict, [blocks]) or raises Bad."""
    p = parse_share(share, lenient_ueb)
    if H.ueb_hash(p["ueb"]) != cap["ueb_hash"]:
        raise Bad("UEB hash mismatch")
    ueb = unpack_ueb(p["ueb"])
    k, n, size = ueb["needed_shares"], ueb["total_shares"], ueb["size"]
    if (k, n, size) != (cap["k"], cap["n"], cap["size"]):
        raise Bad("UEB k/n/size differ from cap")
    nseg, bsizes, seglens = seg_geometry(size, ueb["segment_size"], k)
    if nseg != ueb["num_segments"]:
        raise Bad("num_segments inconsistent")
    if not (0 <= shnum < n):
        raise Bad("share number out of range")
    # blocks
    blocks, off = [], 0
    for bs in bsizes:
        b = p["data"][off:off + bs]
        if len(b) != bs:
            raise Bad("block data truncated")
        blocks.append(b)
        off += bs
    # block hash tree
    bt = H.merkle_tree([H.block_hash(b) for b in blocks])
    stored_bt = [p["block_tree"][i:i + 32] for i in range(0, len(p["block_tree"]), 32)]
    if len(stored_bt) != len(bt):
        raise Bad("block hash tree has %d nodes, expected %d" % (len(stored_bt), len(bt)))
    if stored_bt != bt:
        raise Bad("block hash tree mismatch")
    # share hash chain
    chain = {}
    sc = p["share_chain"]
    if len(sc) % 34:
        raise Bad("share hash chain length")
    for i in range(0, len(sc), 34):
        (num,) = struct.unpack(">H", sc[i:i + 2])
        chain[num] = sc[i + 2:i + 34]
    nl = 1
    while nl < n:
        nl *= 2
    node = (nl - 1) + shnum
    cur = bt[0]
    if node in chain and chain[node] != cur:
        raise Bad("share hash chain leaf differs from block tree root")
    while node > 0:
        sib = node + 1 if node % 2 == 1 else node - 1
        if sib not in chain:
            raise Bad("share hash chain lacks node %d" % sib)
        a, b = (cur, chain[sib]) if node % 2 == 1 else (chain[sib], cur)
        cur = H.pair_hash(a, b)
        node = (node - 1) // 2
    if cur != ueb["share_root_hash"]:
        raise Bad("share hash chain does not reach share_root_hash")
    # crypttext hash tree (same copy in every share)
    ct = [p["crypttext_tree"][i:i + 32] for i in range(0, len(p["crypttext_tree"]), 32)]
    if ct and ct[0] != ueb["crypttext_root_hash"]:
        raise Bad("crypttext hash tree root differs from UEB")
    for i in range(len(ct)):
        if 2 * i + 2 < len(ct) and ct[i] != H.pair_hash(ct[2 * i + 1], ct[2 * i + 2]):
            raise Bad("crypttext hash tree node %d inconsistent with its children" % i)
    nl = 1
    while nl < max(1, nseg):
        nl *= 2
    if nseg and len(ct) != 2 * nl - 1:
        raise Bad("crypttext hash tree has %d nodes, expected %d" % (len(ct), 2 * nl - 1))
    return ueb, blocks, ct


def decode(valid, cap, key):
    """valid: {shnum: (ueb, blocks, ct)} with >= k entries -> plaintext (fully checked) or raises Bad."""
    k, n, size = cap["k"], cap["n"], cap["size"]
    if len(valid) < k:
        raise Bad("fewer than k valid shares")
    shnums = sorted(valid)[:k]
    ueb = valid[shnums[0]][0]
    nseg, bsizes, seglens = seg_geometry(size, ueb["segment_size"], k)
    dec = zfec.Decoder(k, n)
    out = []
    seg_hashes = []
    for s in range(nseg):
        blocks = [valid[sh][1][s] for sh in shnums]
        prim = dec.decode(blocks, shnums)
        seg = b"".join(prim)[:seglens[s]]
        seg_hashes.append(H.crypttext_segment_hash(seg))
        out.append(seg)
    crypttext = b"".join(out)
    if nseg:
        if H.merkle_tree(seg_hashes)[0] != ueb["crypttext_root_hash"]:
            raise Bad("decoded ciphertext does not match crypttext_root_hash")
    if "crypttext_hash" in ueb and H.crypttext_hash(crypttext) != ueb["crypttext_hash"]:
        raise Bad("decoded ciphertext does not match crypttext_hash")
    d = Cipher(algorithms.AES(key), modes.CTR(b"\x00" * 16)).decryptor()
    return d.update(crypttext) + d.finalize()


def parse_chk_cap(cap):
    """b'URI:CHK:key:uebhash:k:n:size' -> dict (independent of allmydata.uri)."""
    import base64
    parts = cap.split(b":")
    assert parts[0] == b"URI" and parts[1] == b"CHK", cap

    def a2b(s):
        s = s.upper()
        s += b"=" * ((8 - len(s) % 8) % 8)
        return base64.b32decode(s)
    return {"key": a2b(parts[2]), "ueb_hash": a2b(parts[3]), "k": int(parts[4]), "n": int(parts[5]), "size": int(parts[6])}


def good_shares_on_disk(servers, si, cap, lenient_ueb=False):
    """{shnum: set(server names)} of shares that fully validate, plus the parsed pieces."""
    where, pieces = {}, {}
    for s in servers:
        for shnum, raw in s.shares_of(si).items():
            try:
                ver, share, nl = split_container(raw)
                v = validate_share(share, shnum, cap, lenient_ueb)
            except (Bad, struct.error, ValueError, KeyError, IndexError):
                continue
            where.setdefault(shnum, set()).add(s.name)
            pieces[shnum] = v
    return where, pieces
