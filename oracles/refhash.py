"""Independent implementation (hashlib + base64 only) of tahoe-lafs' documented key and secret
derivations: tagged double SHA-256 with netstring-wrapped tags (C17), plus the published
known-answer vectors copied from the project's compatibility test."""
import base64
import hashlib


def ns(b):
    return b"%d:%s," % (len(b), b)


def sha256d(b):
    return hashlib.sha256(hashlib.sha256(b).digest()).digest()


def th(tag, val, n=32):
    return sha256d(ns(tag) + val)[:n]


def tph(tag, a, b, n=32):
    return sha256d(ns(tag) + ns(a) + ns(b))[:n]


def b32(b):
    return base64.b32encode(b).decode("ascii").rstrip("=").lower().encode("ascii")


# immutable ---------------------------------------------------------------------------------
def storage_index_from_key(key):
    return th(b"allmydata_immutable_key_to_storage_index_v1", key, 16)


def convergence_key(k, n, segsize, convergence, plaintext):
    tag = b"allmydata_immutable_content_to_key_with_added_secret_v1+" + ns(convergence) + ns(b"%d,%d,%d" % (k, n, segsize))
    return th(tag, plaintext, 16)


def block_hash(d):
    return th(b"allmydata_encoded_subshare_v1", d)


def ueb_hash(d):
    return th(b"allmydata_uri_extension_v1", d)


def crypttext_hash(d):
    return th(b"allmydata_crypttext_v1", d)


def crypttext_segment_hash(d):
    return th(b"allmydata_crypttext_segment_v1", d)


# Merkle trees (allmydata.hashtree): leaves padded to a power of two with empty_leaf_hash(i)
def empty_leaf_hash(i):
    return th(b"Merkle tree empty leaf", b"%d" % i)


def pair_hash(a, b):
    return tph(b"Merkle tree internal node", a, b)


def merkle_tree(leaves):
    """Returns the complete tree as a list: node 0 is the root, children of i are 2i+1, 2i+2."""
    n = 1
    while n < len(leaves):
        n *= 2
    row = list(leaves) + [empty_leaf_hash(i) for i in range(len(leaves), n)]
    rows = [row]
    while len(row) > 1:
        row = [pair_hash(row[i], row[i + 1]) for i in range(0, len(row), 2)]
        rows.append(row)
    tree = []
    for r in reversed(rows):
        tree.extend(r)
    return tree


# leases --------------------------------------------------------------------------------------
# (deployed behaviour: the client-level hashes use the secret as the *tag*)
def client_renewal_secret(lease_secret):
    return th(lease_secret, b"allmydata_client_renewal_secret_v1")


def client_cancel_secret(lease_secret):
    return th(lease_secret, b"allmydata_client_cancel_secret_v1")


def file_renewal_secret(client_renewal, si):
    return tph(b"allmydata_file_renewal_secret_v1", client_renewal, si)


def file_cancel_secret(client_cancel, si):
    return tph(b"allmydata_file_cancel_secret_v1", client_cancel, si)


def bucket_renewal_secret(file_renewal, peerid):
    return tph(b"allmydata_bucket_renewal_secret_v1", file_renewal, peerid)


def bucket_cancel_secret(file_cancel, peerid):
    return tph(b"allmydata_bucket_cancel_secret_v1", file_cancel, peerid)


def lease_secrets(lease_secret, si, peerid):
    return (bucket_renewal_secret(file_renewal_secret(client_renewal_secret(lease_secret), si), peerid),
            bucket_cancel_secret(file_cancel_secret(client_cancel_secret(lease_secret), si), peerid))


# mutable -------------------------------------------------------------------------------------
def ssk_writekey(privkey_der):
    return th(b"allmydata_mutable_privkey_to_writekey_v1", privkey_der, 16)


def ssk_readkey(writekey):
    return th(b"allmydata_mutable_writekey_to_readkey_v1", writekey, 16)


def ssk_storage_index(readkey):
    return th(b"allmydata_mutable_readkey_to_storage_index_v1", readkey, 16)


def ssk_fingerprint(pubkey_der):
    return th(b"allmydata_mutable_pubkey_to_fingerprint_v1", pubkey_der)


def ssk_write_enabler(writekey, peerid):
    wem = th(b"allmydata_mutable_writekey_to_write_enabler_master_v1", writekey)
    return tph(b"allmydata_mutable_write_enabler_master_and_nodeid_to_write_enabler_v1", wem, peerid)


def ssk_datakey(iv, readkey):
    return tph(b"allmydata_mutable_readkey_to_datakey_v1", iv, readkey, 16)


def dirnode_child_capkey(salt, writekey):
    return tph(b"allmydata_mutable_writekey_and_salt_to_dirnode_child_capkey_v1", salt, writekey, 16)


def dirnode_child_salt(rwcap):
    return th(b"allmydata_dirnode_child_rwcap_to_salt_v1", rwcap, 16)


def permute_server_hash(psi, seed):
    return hashlib.sha1(psi + seed).digest()


# published known answers (allmydata/test/test_hashutil.py test_known_answers) -----------------
VECTORS = [
    (lambda: block_hash(b""), b"msjr5bh4evuh7fa3zw7uovixfbvlnstr5b65mrerwfnvjxig2jvq"),
    (lambda: ueb_hash(b""), b"wthsu45q7zewac2mnivoaa4ulh5xvbzdmsbuyztq2a5fzxdrnkka"),
    (lambda: crypttext_hash(b""), b"itdj6e4njtkoiavlrmxkvpreosscssklunhwtvxn6ggho4rkqwga"),
    (lambda: crypttext_segment_hash(b""), b"aovy5aa7jej6ym5ikgwyoi4pxawnoj3wtaludjz7e2nb5xijb7aa"),
    (lambda: convergence_key(3, 10, 100, b"converge", b""), b"3mo6ni7xweplycin6nowynw2we"),
    (lambda: client_renewal_secret(b""), b"ujhr5k5f7ypkp67jkpx6jl4p47pyta7hu5m527cpcgvkafsefm6q"),
    (lambda: client_cancel_secret(b""), b"rjwzmafe2duixvqy6h47f5wfrokdziry6zhx4smew4cj6iocsfaa"),
    (lambda: file_renewal_secret(b"", b"si"), b"hzshk2kf33gzbd5n3a6eszkf6q6o6kixmnag25pniusyaulqjnia"),
    (lambda: file_cancel_secret(b"", b"si"), b"bfciwvr6w7wcavsngxzxsxxaszj72dej54n4tu2idzp6b74g255q"),
    (lambda: bucket_renewal_secret(b"", b"\x00" * 20), b"e7imrzgzaoashsncacvy3oysdd2m5yvtooo4gmj4mjlopsazmvuq"),
    (lambda: bucket_cancel_secret(b"", b"\x00" * 20), b"dvdujeyxeirj6uux6g7xcf4lvesk632aulwkzjar7srildvtqwma"),
    (lambda: dirnode_child_capkey(b"iv", b"wk"), b"6rvn2iqrghii5n4jbbwwqqsnqu"),
    (lambda: ssk_writekey(b""), b"ykpgmdbpgbb6yqz5oluw2q26ye"),
    (lambda: ssk_write_enabler(b"wk", b"\x00" * 20), b"fuu2dvx7g6gqu5x22vfhtyed7p4pd47y5hgxbqzgrlyvxoev62tq"),
    (lambda: ssk_fingerprint(b""), b"3opzw4hhm2sgncjx224qmt5ipqgagn7h5zivnfzqycvgqgmgz35q"),
    (lambda: ssk_readkey(b""), b"vugid4as6qbqgeq2xczvvcedai"),
    (lambda: ssk_datakey(b"iv", b"rk"), b"73wsaldnvdzqaf7v4pzbr2ae5a"),
    (lambda: ssk_storage_index(b""), b"j7icz6kigb6hxrej3tv4z7ayym"),
]


def selfcheck():
    bad = []
    for i, (f, want) in enumerate(VECTORS):
        if b32(f()) != want:
            bad.append(i)
    return bad
