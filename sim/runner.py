"""Batch runner: one forked child per chunk of cases, results over a pipe, wall time-outs
classified as HARNESS-TIMEOUT (never success, never VIOLATION) — DESIGN §2.7/§2.8/§2.9.
"""
import atexit
import faulthandler
import gc
import json
import os
import select
import shutil
import tempfile
import signal
import sys
import traceback

from sim import boot

SPIN_CPU_S = 12.0      # CPU seconds inside ONE reactor event before it is called a spin (events normally take < 1 ms)
NCPU = int(os.environ.get("VERIF_WORKERS", "0")) or min(16, os.cpu_count() or 1)


_TMPROOT = None


def tmp_root():
    """Per-batch scratch root (tmpfs when available); removed by the parent at exit."""
    global _TMPROOT
    if _TMPROOT is None:
        base = "/dev/shm" if os.path.isdir("/dev/shm") and os.access("/dev/shm", os.W_OK) else tempfile.gettempdir()
        _TMPROOT = tempfile.mkdtemp(prefix="verif-%d-" % os.getpid(), dir=base)
        atexit.register(_cleanup_root, os.getpid(), _TMPROOT)
    return _TMPROOT


def _cleanup_root(pid, path):
    if os.getpid() == pid:
        shutil.rmtree(path, ignore_errors=True)


def child_tmp():
    """Scratch directory of the current (forked) run; the parent removes it after reaping."""
    d = os.path.join(tmp_root(), "c%d" % os.getpid())
    os.makedirs(d, exist_ok=True)
    return d


def _child(fn, items, wfd, timeout, item_timeout=None):
    """Runs in the forked child: fn(item) for each item, JSON list to the pipe.  Each item has
    its own wall-clock guard: when it expires the child reports what it has (the wedged item as
    harness_timeout, the items not yet started as 'requeue') and exits at once — an exception
    could be swallowed by the bare excepts of the code under test."""
    out = []
    n = len(items)

    def flush_and_exit():
        try:
            data = json.dumps(out, default=_jsondefault).encode("utf-8")
        except BaseException:
            data = json.dumps([{"harness_error": traceback.format_exc()}]).encode("utf-8")
        try:
            os.write(wfd, data)
            os.close(wfd)
        finally:
            os._exit(0)

    def on_alarm(signum, frame):
        out.append({"harness_timeout": True, "where": "".join(traceback.format_stack(frame)[-6:])[-1500:]})
        while len(out) < n:
            out.append({"requeue": True})
        flush_and_exit()

    def on_prof(signum, frame):
        # CPU-time watchdog (independent of machine load): one reactor event that has been executing for SPIN_CPU_S
        # seconds of this process's own CPU time is a synchronous loop that never returns to the reactor
        import time as _t
        try:
            R = boot.get_reactor()
            cpu0 = getattr(R, "_ev_cpu0", None)
        except Exception:
            cpu0 = None
        if cpu0 is not None and _t.process_time() - cpu0 >= SPIN_CPU_S:
            stack = traceback.extract_stack(frame)
            inner = None
            for fs in stack:
                if fs.filename.startswith(boot.VERIF + os.sep) or fs.filename.startswith(os.path.join(boot.REPO, "src") + os.sep):
                    inner = fs
            out.append({"spin": True, "event": getattr(R, "_ev_label", None), "cpu_s": round(_t.process_time() - cpu0, 1),
                        "in_code_under_test": bool(inner and inner.filename.startswith(os.path.join(boot.REPO, "src") + os.sep)),
                        "at": ("%s:%s" % (os.path.relpath(inner.filename, boot.REPO), inner.name)) if inner else None,
                        "where": "".join(traceback.format_list(stack[-8:]))[-1800:]})
            while len(out) < n:
                out.append({"requeue": True})
            flush_and_exit()
        signal.setitimer(signal.ITIMER_PROF, 4.0)

    try:
        faulthandler.enable()
        faulthandler.dump_traceback_later(max(5, timeout - 2), exit=False)
        gc.disable()
        signal.signal(signal.SIGALRM, on_alarm)
        signal.signal(signal.SIGPROF, on_prof)
        for it in items:
            try:
                if item_timeout:
                    signal.setitimer(signal.ITIMER_REAL, item_timeout)
                signal.setitimer(signal.ITIMER_PROF, SPIN_CPU_S + 2.0)
                r = fn(it)
                signal.setitimer(signal.ITIMER_REAL, 0)
                signal.setitimer(signal.ITIMER_PROF, 0)
                out.append(r)
            except BaseException:
                signal.setitimer(signal.ITIMER_REAL, 0)
                signal.setitimer(signal.ITIMER_PROF, 0)
                out.append({"harness_error": traceback.format_exc(), "item": _brief(it)})
    except BaseException:
        out.append({"harness_error": traceback.format_exc()})
    flush_and_exit()


def _brief(it):
    s = repr(it)
    return s if len(s) < 300 else s[:300] + "..."


def _jsondefault(o):
    if isinstance(o, (bytes, bytearray)):
        return {"__b__": bytes(o).hex()}
    if isinstance(o, (set, frozenset)):
        return sorted(o, key=repr)
    return repr(o)


def unjson(o):
    """Inverse of _jsondefault for bytes."""
    if isinstance(o, dict):
        if len(o) == 1 and "__b__" in o:
            return bytes.fromhex(o["__b__"])
        return {k: unjson(v) for k, v in o.items()}
    if isinstance(o, list):
        return [unjson(v) for v in o]
    return o


def run_forked(fn, items, chunk=1, workers=None, timeout=120, wall_budget=None, progress=None, item_timeout=None):
    """Run fn(item) for every item, `chunk` items per forked child, at most `workers`
    children at a time.  Returns list of results in item order; an item whose child timed
    out or died yields {"harness_timeout": True} / {"harness_error": ...}.
    If wall_budget (seconds) is exceeded, remaining items are not started and are reported
    as {"skipped": True}."""
    workers = workers or NCPU
    root = tmp_root()
    items = list(items)
    chunks = [(i, items[i:i + chunk]) for i in range(0, len(items), chunk)]
    results = [None] * len(items)
    live = {}   # rfd -> (pid, start_index, n, buf, deadline)
    next_chunk = 0
    t0 = boot.real_monotonic()
    sys.stdout.flush()
    sys.stderr.flush()
    while next_chunk < len(chunks) or live:
        while next_chunk < len(chunks) and len(live) < workers:
            if wall_budget is not None and boot.real_monotonic() - t0 > wall_budget:
                for (si, its) in chunks[next_chunk:]:
                    for j in range(len(its)):
                        results[si + j] = {"skipped": True}
                next_chunk = len(chunks)
                break
            si, its = chunks[next_chunk]
            next_chunk += 1
            rfd, wfd = os.pipe()
            pid = os.fork()
            if pid == 0:
                os.close(rfd)
                for fd in list(live.keys()):
                    try:
                        os.close(fd)
                    except OSError:
                        pass
                _child(fn, its, wfd, timeout, item_timeout)
            os.close(wfd)
            live[rfd] = [pid, si, len(its), bytearray(), boot.real_monotonic() + timeout]
        if not live:
            continue
        now = boot.real_monotonic()
        wait = max(0.0, min(v[4] for v in live.values()) - now)
        ready, _, _ = select.select(list(live.keys()), [], [], min(wait, 1.0))
        for rfd in ready:
            ent = live[rfd]
            data = os.read(rfd, 1 << 20)
            if data:
                ent[3] += data
                continue
            os.close(rfd)
            del live[rfd]
            try:
                os.waitpid(ent[0], 0)
            except ChildProcessError:
                pass
            shutil.rmtree(os.path.join(root, "c%d" % ent[0]), ignore_errors=True)
            try:
                out = json.loads(bytes(ent[3]).decode("utf-8"))
            except Exception:
                out = [{"harness_error": "child died without a result (pid %d)" % ent[0]}] * ent[2]
            if len(out) != ent[2]:
                out = (out + [{"harness_error": "short result list"}] * ent[2])[:ent[2]]
            for j, r in enumerate(out):
                results[ent[1] + j] = r
            if progress:
                progress(sum(1 for r in results if r is not None), len(items))
        now = boot.real_monotonic()
        for rfd in [k for k, v in live.items() if v[4] < now]:
            ent = live.pop(rfd)
            try:
                os.kill(ent[0], signal.SIGKILL)
                os.waitpid(ent[0], 0)
            except OSError:
                pass
            os.close(rfd)
            shutil.rmtree(os.path.join(root, "c%d" % ent[0]), ignore_errors=True)
            for j in range(ent[2]):
                results[ent[1] + j] = {"harness_timeout": True}
    again = [i for i, r in enumerate(results) if isinstance(r, dict) and r.get("requeue")]
    if again:
        rs = run_forked(fn, [items[i] for i in again], chunk=max(1, chunk // 4), workers=workers, timeout=timeout,
                        wall_budget=None, progress=None, item_timeout=item_timeout)
        for i, r in zip(again, rs):
            results[i] = r
    return results
