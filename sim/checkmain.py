"""Common driver for every check: batch, replay, minimisation, known findings, evidence.

A check module (checks/Cnn.py) provides:
  PROPERTY, ENGINE, LEVEL ('exploration'|'fault_enumeration'), RULE (str), COUNTS {'quick','thorough'},
  generate(seed, tier) -> case (JSON-able dict with lists 'ops'/'faults' where applicable)
  execute(case) -> result dict (see below)
optional: CHUNK, TIMEOUT, ASSUMPTIONS, REAL, STUB, WALL {'quick','thorough'} seconds, shrink(case)
result: {'violations':[{'clause','sig','detail'}], 'digest', 'fingerprint', 'nontrivial',
         'events', 'sim_s', 'faults':{}, 'probes':{}}
"""
import copy
import hashlib
import importlib
import json
import os
import subprocess
import sys

from sim import boot
from sim.runner import run_forked, unjson, _jsondefault

VERIF = boot.VERIF
KNOWN_FILE = os.path.join(VERIF, "known_findings.json")


def load_known():
    if os.environ.get("VERIF_IGNORE_KNOWN"):
        return []      # tooling only (tools/regen_*): produce replay files for listed findings
    try:
        with open(KNOWN_FILE) as f:
            return json.load(f).get("findings", [])
    except FileNotFoundError:
        return []


def known_match(known, prop, v):
    for k in known:
        if k.get("status") == "known" and k.get("property") == prop and k.get("signature") == v.get("sig"):
            return k
    return None


def _mod(check):
    return importlib.import_module("checks." + check)


def _exec_case(args):
    check, case = args
    m = _mod(check)
    r = m.execute(unjson(case))
    r.setdefault("violations", [])
    return r


def _gen_exec(args):
    check, seed, tier = args
    m = _mod(check)
    case = m.generate(seed, tier)
    r = m.execute(copy.deepcopy(case))
    r.setdefault("violations", [])
    r["seed"] = seed
    tc = getattr(boot.get_reactor(), "thread_completions", 0)
    if tc:
        r.setdefault("probes", {})["simulated-thread-pool-completions"] = tc
    if r["violations"] or (seed % 1000) < 3:
        r["case"] = case
    return r


def _spin_to_result(m, r, seed=None, case=None):
    """A run in which one reactor event never returned (CPU watchdog, sim/runner.py).  For properties that promise an
    outcome of the operation this is a violation when the loop is in the code under test; otherwise a harness failure."""
    if not r.get("spin"):
        return r
    if getattr(m, "SPIN_IS_VIOLATION", False) and r.get("in_code_under_test"):
        prop = m.PROPERTY
        out = {"violations": [{"clause": "%s.never-returns" % prop, "sig": "%s.never-returns.%s" % (prop, r.get("at")),
                               "detail": "the operation never returns to the reactor: one event (%s) ran for %s CPU seconds inside %s\n%s" % (
                                   r.get("event"), r.get("cpu_s"), r.get("at"), r.get("where", ""))}],
               "digest": "spin:%s" % r.get("at"), "fingerprint": "spin", "nontrivial": True, "events": 0, "sim_s": 0.0, "faults": {}, "probes": {}}
        if seed is not None:
            out["seed"] = seed
        if case is not None:
            out["case"] = case
        return out
    return {"harness_timeout": True, "where": r.get("where"), "spin": True}


def _clauses(r):
    return sorted(set(v["clause"] for v in r.get("violations", [])))


def replay_file(check, path, quiet=False):
    with open(path) as f:
        doc = json.load(f)
    case = doc["case"]
    m = _mod(check)
    res = run_forked(_exec_case, [(check, case)], chunk=1, workers=1,
                     timeout=getattr(m, "TIMEOUT", 120) * 3)[0]
    return doc, _spin_to_result(m, res)


def minimise(check, case, clause, budget_s=90):
    """Delta debugging over the lists case['ops'] / case['faults'] (+ module shrink())."""
    m = _mod(check)
    t_end = boot.real_monotonic() + budget_s
    timeout = getattr(m, "TIMEOUT", 120)
    tried = [0]

    def reproduces_many(cands):
        if not cands:
            return None
        tried[0] += len(cands)
        rs = run_forked(_exec_case, [(check, c) for c in cands], chunk=1, timeout=timeout)
        for c, r in zip(cands, rs):
            if clause in _clauses(r):
                return c
        return None

    best = case
    progress = True
    while progress and boot.real_monotonic() < t_end:
        progress = False
        for key in ("faults", "muts", "ops"):
            lst = best.get(key)
            if not isinstance(lst, list) or not lst:
                continue
            n = 2
            while len(best.get(key, [])) >= 1 and boot.real_monotonic() < t_end:
                lst = best[key]
                size = max(1, len(lst) // n)
                cands = []
                for i in range(0, len(lst), size):
                    c = copy.deepcopy(best)
                    c[key] = lst[:i] + lst[i + size:]
                    cands.append(c)
                got = reproduces_many(cands[:32])
                if got is not None:
                    best = got
                    progress = True
                    n = max(n - 1, 2)
                    if not best[key]:
                        break
                else:
                    if size == 1:
                        break
                    n = min(len(lst), n * 2)
        if hasattr(m, "shrink") and boot.real_monotonic() < t_end:
            cands = list(m.shrink(copy.deepcopy(best)))[:48]
            got = reproduces_many(cands)
            if got is not None:
                best = got
                progress = True
    return best, tried[0]


def write_replay(check, case, violations, note=""):
    prop = _mod(check).PROPERTY
    rdir = os.environ.get("VERIF_REPLAY_DIR") or os.path.join(VERIF, "replays")
    os.makedirs(rdir, exist_ok=True)
    body = json.dumps(case, sort_keys=True, default=_jsondefault)
    tag = hashlib.sha256(body.encode()).hexdigest()[:10]
    path = os.path.join(rdir, "%s-%s-%s.json" % (prop, case.get("seed", "x"), tag))
    doc = {"property": prop, "check": check, "case": json.loads(body),
           "violations": violations, "note": note,
           "pythonhashseed": os.environ.get("PYTHONHASHSEED"),
           "python": sys.version.split()[0], "repo": _repo_id()}
    with open(path, "w") as f:
        json.dump(doc, f, indent=1, sort_keys=True)
    return path


def _repo_id():
    try:
        head = subprocess.run(["git", "-C", boot.REPO, "rev-parse", "HEAD"], capture_output=True,
                              text=True, timeout=20).stdout.strip()
        diff = subprocess.run(["git", "-C", boot.REPO, "diff", "HEAD", "--", "src"], capture_output=True,
                              timeout=20).stdout
        return {"head": head, "dirty_sha": hashlib.sha256(diff).hexdigest()[:12] if diff else ""}
    except Exception:
        return {}


def main(argv=None):
    import argparse
    ap = argparse.ArgumentParser()
    ap.add_argument("check")
    ap.add_argument("--tier", default=os.environ.get("VERIF_TIER", "quick"), choices=["quick", "thorough"])
    ap.add_argument("--seed", type=int, default=None)
    ap.add_argument("--replay")
    ap.add_argument("--count", type=int)
    ap.add_argument("--one", type=int, help="run one generated case with this absolute seed, verbose")
    ap.add_argument("--no-minimise", action="store_true")
    ap.add_argument("--no-evidence", action="store_true")
    a = ap.parse_args(argv)
    boot.install()
    check = a.check
    m = _mod(check)
    prop = m.PROPERTY
    known = load_known()

    if a.replay:
        doc, res = replay_file(check, a.replay)
        if res.get("harness_error") or res.get("harness_timeout"):
            print("HARNESS-ERROR replay %s: %s" % (a.replay, res.get("harness_error", "timeout")))
            return 2
        rc = 0
        for v in res["violations"]:
            k = known_match(known, prop, v)
            if k:
                print("KNOWN-FINDING: property=%s %s" % (prop, k.get("what", v["sig"])))
            else:
                print("VIOLATION property=%s replay=%s" % (prop, a.replay))
                print("  clause=%s sig=%s\n  %s" % (v["clause"], v.get("sig"), v.get("detail", "")[:2000]))
                rc = 1
        if not res["violations"]:
            print("replay: no violation (digest %s)" % res.get("digest"))
        return rc

    if a.one is not None:
        case = m.generate(a.one, a.tier)
        print(json.dumps(case, default=_jsondefault)[:6000])
        res = run_forked(_exec_case, [(check, json.loads(json.dumps(case, default=_jsondefault)))],
                         chunk=1, workers=1, timeout=600)[0]
        print(json.dumps(res, indent=1, default=_jsondefault)[:8000])
        return 1 if res.get("violations") else 0

    base = a.seed if a.seed is not None else int(os.environ.get("VERIF_SEED", "0") or 0)
    n = a.count or m.COUNTS[a.tier]
    wall = getattr(m, "WALL", {"quick": 240, "thorough": 3000})[a.tier]
    seeds = [base * 1_000_000 + i for i in range(n)]
    t0 = boot.real_monotonic()
    chunk = getattr(m, "CHUNK", 1)
    timeout = getattr(m, "TIMEOUT", 120)
    results = run_forked(_gen_exec, [(check, s, a.tier) for s in seeds], chunk=chunk,
                         timeout=timeout * (chunk if chunk > 1 else 1) + 30, wall_budget=wall, item_timeout=timeout)

    for i, r in enumerate(results):
        if r.get("spin"):
            results[i] = _spin_to_result(m, r, seeds[i], m.generate(seeds[i], a.tier))
    # retry harness failures once, serially (a loaded machine must not look like a defect)
    bad = [i for i, r in enumerate(results) if r.get("harness_timeout") or r.get("harness_error")]
    if bad and len(bad) <= 8:
        retry = run_forked(_gen_exec, [(check, seeds[i], a.tier) for i in bad], chunk=1, workers=4,
                           timeout=timeout * 3)
        for i, r in zip(bad, retry):
            results[i] = _spin_to_result(m, r, seeds[i], m.generate(seeds[i], a.tier)) if r.get("spin") else r
    bad = [i for i, r in enumerate(results) if r.get("harness_timeout") or r.get("harness_error")]
    for r in results:
        if not r.get("skipped") and not r.get("harness_timeout") and not r.get("harness_error") and "violations" not in r:
            r["harness_error"] = "malformed result: %r" % (sorted(r),)
    bad = [i for i, r in enumerate(results) if r.get("harness_timeout") or r.get("harness_error")]
    done = [r for r in results if not r.get("skipped") and not r.get("harness_timeout") and not r.get("harness_error")]

    # determinism re-check on a sample (fresh children)
    sample_idx = [i for i, r in enumerate(results) if r in done][:: max(1, len(done) // 6)][:6]
    nondet = 0
    if sample_idx and not os.environ.get("VERIF_NO_RECHECK"):
        again = run_forked(_gen_exec, [(check, seeds[i], a.tier) for i in sample_idx], chunk=1, timeout=timeout * 2)
        for i, r2 in zip(sample_idx, again):
            if r2.get("digest") != results[i].get("digest") or _clauses(r2) != _clauses(results[i]):
                nondet += 1
                sys.stderr.write("NONDETERMINISM check=%s seed=%d %s vs %s\n" % (
                    check, seeds[i], results[i].get("digest"), r2.get("digest")))

    # violations
    by_sig = {}
    for r in done:
        for v in r["violations"]:
            by_sig.setdefault((v["clause"], v.get("sig")), []).append(r)
    rc = 0
    new_viol = 0
    known_lines = set()
    for (clause, sig), rs in sorted(by_sig.items(), key=lambda kv: repr(kv[0])):
        v0 = [v for v in rs[0]["violations"] if v["clause"] == clause and v.get("sig") == sig][0]
        k = known_match(known, prop, v0)
        if k:
            known_lines.add("KNOWN-FINDING: property=%s %s" % (prop, k.get("what", sig)))
            continue
        new_viol += 1
        if new_viol > 5:
            print("  (also) clause=%s sig=%s seeds=%s" % (clause, sig, [x["seed"] for x in rs[:5]]))
            continue
        # a violation is reported only with a replay file that reproduces it alone in a fresh process (several runs share
        # one forked child; a violation that needs state left behind by an earlier run of that child is not replayable)
        confirmed, path, note = False, None, ""
        for r in sorted(rs, key=lambda r: len(json.dumps(r.get("case"), default=_jsondefault)))[:3]:
            case = json.loads(json.dumps(r["case"], default=_jsondefault))
            note = "unminimised"
            if not a.no_minimise and not clause.endswith(".never-returns"):
                try:
                    case, tried = minimise(check, case, clause)
                    note = "minimised (%d candidates tried)" % tried
                except Exception as e:   # minimisation is best effort
                    note = "minimisation failed: %r" % (e,)
            path = write_replay(check, case, [v0], note)
            p = subprocess.run([sys.executable, os.path.join(VERIF, "check"), check, "--replay", path],
                               capture_output=True, text=True, timeout=900)
            confirmed = ("VIOLATION property=%s" % prop) in p.stdout
            if confirmed:
                break
            os.unlink(path)
        if not confirmed:
            print("HARNESS-ERROR check=%s clause=%s sig=%s seeds=%s: seen inside a batch child but not reproduced when the case is replayed "
                  "alone in a fresh process (state carried over between runs of one child?) -- not reported as a violation" % (
                      check, clause, sig, [x["seed"] for x in rs[:5]]))
            new_viol -= 1
            rc = rc or 2
            continue
        print("VIOLATION property=%s replay=%s" % (prop, path))
        print("  clause=%s sig=%s seeds=%s confirmed_in_fresh_process=%s %s" % (
            clause, sig, [x["seed"] for x in rs[:5]], confirmed, note))
        print("  " + v0.get("detail", "")[:1500].replace("\n", "\n  "))
        rc = 1
    for line in sorted(known_lines):
        print(line)

    wall_s = boot.real_monotonic() - t0
    if bad:
        for i in bad[:5]:
            print("HARNESS-ERROR check=%s seed=%d %s" % (check, seeds[i],
                  (results[i].get("harness_error") or "wall time-out")[-1500:]))
        rc = rc or 2

    if not a.no_evidence:
        write_evidence(m, check, a.tier, base, results, done, wall_s, new_viol, nondet, len(bad), known_lines)
    skipped = sum(1 for r in results if r.get("skipped"))
    print("%s %s: %d runs (%d skipped by wall budget), %d distinct digests, %.1fs, violations=%d known=%d nondet=%d harness_bad=%d" % (
        check, a.tier, len(done), skipped, len(set(r.get("digest") for r in done)), wall_s, new_viol,
        len(known_lines), nondet, len(bad)))
    if not done:
        print("HARNESS-ERROR no run completed")
        return 2
    return rc


def write_evidence(m, check, tier, base, results, done, wall_s, nviol, nondet, nbad, known_lines):
    faults, probes = {}, {}
    for r in done:
        for k, v in (r.get("faults") or {}).items():
            faults[k] = faults.get(k, 0) + v
        for k, v in (r.get("probes") or {}).items():
            probes[k] = probes.get(k, 0) + v
    fps = set(r.get("fingerprint") for r in done if r.get("nontrivial"))
    samples = [r["case"] for r in done if r.get("case") is not None][:3]
    samples = [_truncate(s) for s in samples]
    ev = {
        "property_id": m.PROPERTY, "tier": tier, "seed": base, "level": m.LEVEL,
        "coverage": {
            "evaluations": len(done),
            "distinct_nontrivial": len(fps),
            "rule": m.RULE,
            "samples": samples or ["<no sample retained>"],
            "engine": m.ENGINE,
            "runs_per_hour": int(len(done) * 3600 / max(wall_s, 1e-6)),
            "reactor_events": sum(r.get("events", 0) for r in done),
            "simulated_seconds": round(sum(r.get("sim_s", 0.0) for r in done), 3),
            "faults_fired": faults,
            "probes_hit": probes,
            "distinct_event_digests": len(set(r.get("digest") for r in done)),
            "determinism_recheck_mismatches": nondet,
            "harness_failures": nbad,
            "skipped_by_wall_budget": sum(1 for r in results if r.get("skipped")),
            "known_findings_reported": sorted(known_lines),
            "real_code": getattr(m, "REAL", []),
            "stubs": getattr(m, "STUB", []),
            "exhaustive": False,
        },
        "assumptions": getattr(m, "ASSUMPTIONS", []),
        "wall_s": round(wall_s, 2),
        "violations": nviol,
    }
    os.makedirs(os.path.join(VERIF, "evidence"), exist_ok=True)
    with open(os.path.join(VERIF, "evidence", m.PROPERTY + ".json"), "w") as f:
        json.dump(ev, f, indent=1, sort_keys=True, default=_jsondefault)


def _truncate(o, depth=0):
    if isinstance(o, dict):
        return {k: _truncate(v, depth + 1) for k, v in list(o.items())[:40]}
    if isinstance(o, list):
        return [_truncate(v, depth + 1) for v in o[:12]] + (["... %d more" % (len(o) - 12)] if len(o) > 12 else [])
    if isinstance(o, str) and len(o) > 200:
        return o[:200] + "..."
    return o
