"""SimNet / SimRef — the only transport the simulated nodes see (DESIGN §2.3).

A SimRef offers the IRemoteReference surface the clients use around a real Referenceable.
Each callRemote is two simulator events: request delivery (runs the real remote_* method on
the callee) and response delivery (fires the caller's Deferred).  Faithful to foolscap over
TCP: per connection requests are delivered FIFO and responses FIFO; across connections any
interleaving (latency drawn per message, label-keyed).  Faults: disconnect (in-flight calls
fail, disconnect watchers fire on both sides), stall (a connection delivers nothing until t),
injected error on the n-th call of a method, tamper hooks on results.
"""
import hashlib

from foolscap.api import Referenceable, RemoteException, DeadReferenceError
from foolscap.eventual import eventually
from twisted.internet import defer
from twisted.internet.error import ConnectionDone, ConnectionLost
from twisted.python.failure import Failure


class Conn(object):
    def __init__(self, net, a, b):
        self.net = net
        self.a, self.b = a, b          # a = the side that initiated (client), b = server
        self.up = True
        self.stalled_until = 0.0
        self.last_req_t = 0.0
        self.last_resp_t = 0.0
        self.inflight = {}             # msgid -> Deferred
        self.watchers = {}             # marker -> (cb, a, kw)
        self.nwatch = 0
        self.generation = 0

    def name(self):
        return "%s>%s" % (self.a, self.b)


class SimNet(object):
    def __init__(self, reactor, chooser, cfg=None):
        self.R = reactor
        self.ch = chooser
        cfg = cfg or {}
        self.base_lat = cfg.get("base_lat", 0.001)
        self.jitter = cfg.get("jitter", 0.05)
        self.slow = cfg.get("slow", {})          # node -> extra latency factor
        self.profile = cfg.get("lat_profile", "uniform")
        # batch > 0: arrival times are rounded up to multiples of `batch` seconds and every message that arrives at one
        # instant is handed over before any zero-delay call (foolscap eventual-send turn, callLater(0)) queued meanwhile
        # runs -- a reactor iteration that reads several sockets before it gets to its queue of pending calls.  Order
        # across connections at one instant is drawn (label-keyed); order within a connection stays FIFO.
        self.batch = cfg.get("batch", 0) or 0
        self.conns = {}
        self.msgid = 0
        self.counters = {}
        self.log = []                            # transport log (dicts)
        self.keep_log = True
        self.observers = []                      # fn(event dict) monitors (C17 etc.)
        self.faults = []                         # armed fault rules
        self.fired = {}                          # fault kind -> count
        self.tamper = {}                         # (callee, methname) -> fn(args, result) -> result
        self.call_filter = None
        self.answer_hook = None                  # fn(caller, callee, method, result) when a response reaches the caller

    # -- connections ---------------------------------------------------------------
    def conn(self, a, b):
        k = (a, b)
        if k not in self.conns:
            self.conns[k] = Conn(self, a, b)
        return self.conns[k]

    def ref(self, caller, callee, target):
        """A reference held by `caller` to object `target` living on `callee`."""
        return SimRef(self, self.conn(caller, callee), caller, callee, target, reverse=False)

    def count(self, kind):
        self.fired[kind] = self.fired.get(kind, 0) + 1

    # -- latency -------------------------------------------------------------------
    def latency(self, frm, to, label):
        u = self.ch.random("sched", ("lat",) + label)
        if self.profile == "uniform":
            lat = self.base_lat + u * self.jitter
        elif self.profile == "heavy":
            lat = self.base_lat + self.jitter * (0.02 / max(1e-3, 1.0 - u) if u > 0.9 else u)
        elif self.profile == "fifo":
            # constant latency; a label-keyed epsilon breaks ties between connections so that the
            # order of simultaneous deliveries never depends on the order the calls were issued in
            # (the uploader iterates sets of objects, i.e. address order)
            lat = self.base_lat + u * 1e-6
        else:
            lat = self.base_lat + u * self.jitter
        f = self.slow.get(frm, 1.0) * self.slow.get(to, 1.0)
        return lat * f

    # -- faults --------------------------------------------------------------------
    def add_fault(self, rule):
        """rule: dict(kind, callee, method, nth, ...) kinds:
        'error' (callee raises), 'disconnect_before', 'disconnect_after' (executed, response lost),
        'stall' (connection stalled for `secs` from that call on), 'drop_response_then_disconnect'."""
        rule = dict(rule)
        rule["seen"] = 0
        rule["done"] = False
        self.faults.append(rule)

    def _match_faults(self, caller, callee, methname):
        out = []
        for r in self.faults:
            if r["done"]:
                continue
            if r.get("callee") not in (None, callee):
                continue
            if r.get("caller") not in (None, caller):
                continue
            if r.get("method") not in (None, methname):
                continue
            r["seen"] += 1
            if r.get("every"):
                # a persistently broken server: every matching call from the nth on
                if r["seen"] >= r.get("nth", 1):
                    out.append(r)
            elif r["seen"] == r.get("nth", 1):
                r["done"] = True
                out.append(r)
        return out

    def disconnect(self, a, b, why="injected"):
        c = self.conns.get((a, b))
        if c is None or not c.up:
            return False
        c.up = False
        c.generation += 1
        self.count("disconnect")
        self._emit({"ev": "disconnect", "conn": c.name(), "why": why})
        inflight, c.inflight = c.inflight, {}
        for mid in sorted(inflight):
            d = inflight[mid]
            d.errback(Failure(ConnectionLost("simulated connection loss (%s)" % why)))
        watchers, c.watchers = c.watchers, {}
        for k in sorted(watchers):
            cb, a_, kw = watchers[k]
            eventually(cb, *a_, **kw)
        return True

    def heal(self, a, b):
        c = self.conn(a, b)
        c.up = True
        c.stalled_until = 0.0
        self._emit({"ev": "heal", "conn": c.name()})

    def stall(self, a, b, secs):
        c = self.conn(a, b)
        c.stalled_until = max(c.stalled_until, self.R.true_seconds() + secs)
        self.count("stall")
        self._emit({"ev": "stall", "conn": c.name(), "secs": secs})

    def _emit(self, ev):
        ev["t"] = round(self.R.true_seconds(), 6)
        ev["n"] = self.R.events
        if self.keep_log:
            self.log.append(ev)
        for o in self.observers:
            o(ev)


def _key(label, phase):
    """Stable tie-break key of a message (never depends on issue order or addresses)."""
    return 1 + int.from_bytes(hashlib.blake2b(repr((label, phase)).encode(), digest_size=7).digest(), "big")


def _batched(q, t, direction, mid):
    """(arrival instant rounded up to the batch grid, tie-break key).  Keys are negative, so batched deliveries precede
    zero-delay calls queued at the same instant; one (connection direction, instant) shares the drawn high part of the key
    and is ordered by message id within it (FIFO)."""
    import math
    idx = int(math.ceil(t / q - 1e-9))
    h = int.from_bytes(hashlib.blake2b(repr((direction, idx)).encode(), digest_size=3).digest(), "big")
    return idx * q, -(1 << 60) + (h << 32) + (mid & 0xffffffff)


def _brief(x, depth=0):
    if isinstance(x, (bytes, bytearray)):
        return "b[%d]" % len(x) if len(x) > 24 else repr(bytes(x))
    if isinstance(x, (list, tuple)) and depth < 2:
        return [_brief(i, depth + 1) for i in list(x)[:6]]
    if isinstance(x, (set, frozenset)):
        return sorted(x)[:16]
    if isinstance(x, dict) and depth < 2:
        return {repr(k): _brief(v, depth + 1) for k, v in list(x.items())[:6]}
    if isinstance(x, (int, float, str, type(None), bool)):
        return x
    return type(x).__name__


class SimRef(object):
    """IRemoteReference look-alike."""

    def __init__(self, net, conn, caller, callee, target, reverse):
        self.net = net
        self.conn = conn
        self.caller = caller        # node holding this reference
        self.callee = callee        # node where target lives
        self.target = target
        self.reverse = reverse      # True: reference travels server->client direction of the conn
        self.generation = conn.generation
        self.version = None
        net.refseq = getattr(net, "refseq", 0) + 1
        self._hid = net.refseq          # creation order, not address: sets of references iterate reproducibly

    def __hash__(self):
        return self._hid * 7919 + 13

    def __repr__(self):
        return "<SimRef %s->%s %s>" % (self.caller, self.callee, type(self.target).__name__)

    # foolscap surface -------------------------------------------------------------
    def getRemoteTubID(self):
        return self.callee

    def getLocationHints(self):
        return []

    def getPeer(self):
        return None

    def getDataLastReceivedAt(self):
        return None

    def getSturdyRef(self):
        return None

    def notifyOnDisconnect(self, cb, *a, **kw):
        c = self.conn
        if not self._alive():
            eventually(cb, *a, **kw)
            return None
        c.nwatch += 1
        c.watchers[c.nwatch] = (cb, a, kw)
        return c.nwatch

    def dontNotifyOnDisconnect(self, marker):
        self.conn.watchers.pop(marker, None)

    def callRemoteOnly(self, methname, *args, **kwargs):
        d = self.callRemote(methname, *args, **kwargs)
        d.addErrback(lambda f: None)
        return None

    def _alive(self):
        return self.conn.up and self.generation == self.conn.generation

    def _wrap_out(self, v, frm, to):
        """Referenceables crossing the wire become references held by the receiver."""
        if isinstance(v, Referenceable):
            return SimRef(self.net, self.conn, to, frm, v, reverse=not self.reverse)
        if isinstance(v, SimRef):
            return v
        if isinstance(v, dict):
            return {k: self._wrap_out(x, frm, to) for k, x in v.items()}
        if isinstance(v, list):
            return [self._wrap_out(x, frm, to) for x in v]
        if isinstance(v, tuple):
            return tuple(self._wrap_out(x, frm, to) for x in v)
        return v

    def callRemote(self, methname, *args, **kwargs):
        net, conn, R = self.net, self.conn, self.net.R
        d = defer.Deferred()
        if not self._alive():
            d.errback(Failure(DeadReferenceError("simulated dead reference %s" % conn.name())))
            return d
        net.msgid += 1
        mid = net.msgid
        ck = (self.caller, self.callee, methname)
        n = net.counters.get(ck, 0)
        net.counters[ck] = n + 1
        label = (self.caller, self.callee, methname, n)
        args = tuple(self._wrap_out(a, self.caller, self.callee) for a in args)
        kwargs = {k: self._wrap_out(v, self.caller, self.callee) for k, v in kwargs.items()}
        conn.inflight[mid] = d
        now = R.true_seconds()
        t = max(now + net.latency(self.caller, self.callee, label + ("req",)), conn.stalled_until)
        # strictly increasing per direction of a connection: FIFO must not rest on tie-breaks
        if self.reverse:
            t = max(t, conn.last_resp_t + 2e-6)
            conn.last_resp_t = t
        else:
            t = max(t, conn.last_req_t + 2e-6)
            conn.last_req_t = t
        gen = conn.generation
        if net.batch:
            t, bkey = _batched(net.batch, t, (self.caller, self.callee, "req"), mid)
            dc = R.callAtKeyed(t, bkey, self._deliver, mid, gen, methname, args, kwargs, label, d)
            dc.sim_label = "req:%s>%s:%s#%d" % label
            return d
        dc = R.callLaterKeyed(t - now, _key(label, "req"), self._deliver, mid, gen, methname, args, kwargs, label, d)
        dc.sim_label = "req:%s>%s:%s#%d" % label
        return d

    def _deliver(self, mid, gen, methname, args, kwargs, label, d, nofault=False):
        net, conn, R = self.net, self.conn, self.net.R
        if not conn.up or conn.generation != gen or mid not in conn.inflight:
            return
        if R.true_seconds() < conn.stalled_until:
            # the connection is stalled: everything in flight waits, order preserved (by msg id)
            dc = R.callLater(conn.stalled_until - R.true_seconds() + mid * 1e-9, self._deliver, mid, gen, methname,
                             args, kwargs, label, d, nofault)
            dc.sim_label = "req-stalled:%s>%s:%s#%d" % label
            return
        rules = [] if nofault else net._match_faults(self.caller, self.callee, methname)
        ev = {"ev": "call", "caller": self.caller, "callee": self.callee, "method": methname,
              "nth": label[3], "args": _brief(args)}
        after = None
        for r in rules:
            k = r["kind"]
            net.count(k)
            ev["fault"] = k
            if k == "disconnect_before":
                net._emit(ev)
                net.disconnect(conn.a, conn.b, "before %s" % methname)
                return
            if k == "error":
                net._emit(ev)
                self._respond(mid, gen, label, d, Failure(RemoteException(Failure(
                    RuntimeError("injected server error in %s" % methname)))))
                return
            if k == "stall":
                conn.stalled_until = max(conn.stalled_until, R.true_seconds() + r.get("secs", 30.0))
                # the request itself is delayed too
                dc = R.callLater(conn.stalled_until - R.true_seconds() + mid * 1e-9, self._deliver, mid, gen, methname, args, kwargs, label, d, True)
                dc.sim_label = "req-after-stall:%s>%s:%s#%d" % label
                net._emit(ev)
                return
            if k == "disconnect_after":
                after = "disconnect"
        prev = R.current_node
        R.current_node = self.callee
        try:
            meth = getattr(self.target, "remote_" + methname)
            res = meth(*args, **kwargs)
        except Exception:
            res = Failure()
        finally:
            R.current_node = prev
        net._emit(ev)
        hook = net.call_filter
        if hook is not None:
            hook(self.caller, self.callee, methname, args, kwargs, res)
        if after == "disconnect":
            net.disconnect(conn.a, conn.b, "after %s" % methname)
            return
        if isinstance(res, defer.Deferred):
            res.addBoth(lambda r: self._respond(mid, gen, label, d, r))
        else:
            self._respond(mid, gen, label, d, res)

    def _respond(self, mid, gen, label, d, res):
        net, conn, R = self.net, self.conn, self.net.R
        if isinstance(res, Failure):
            if not res.check(RemoteException):
                res = Failure(RemoteException(res))
        else:
            tf = net.tamper.get((self.callee, label[2]))
            if tf is not None:
                res = tf(label, res)
            res = self._wrap_out(res, self.callee, self.caller)
        now = R.true_seconds()
        t = max(now + net.latency(self.callee, self.caller, label + ("resp",)), conn.stalled_until)
        if self.reverse:
            t = max(t, conn.last_req_t + 2e-6)
            conn.last_req_t = t
        else:
            t = max(t, conn.last_resp_t + 2e-6)
            conn.last_resp_t = t
        if net.batch:
            t, bkey = _batched(net.batch, t, (self.callee, self.caller, "resp"), mid)
            dc = R.callAtKeyed(t, bkey, self._answer, mid, gen, d, res, label[2])
        else:
            dc = R.callLaterKeyed(t - now, _key(label, "resp"), self._answer, mid, gen, d, res, label[2])
        dc.sim_label = "resp:%s>%s:%s#%d" % label

    def _answer(self, mid, gen, d, res, methname=None):
        conn = self.conn
        R = self.net.R
        if not conn.up or conn.generation != gen or mid not in conn.inflight:
            return
        if R.true_seconds() < conn.stalled_until:
            dc = R.callLater(conn.stalled_until - R.true_seconds() + mid * 1e-9, self._answer, mid, gen, d, res, methname)
            dc.sim_label = "resp-stalled:%d" % mid
            return
        del conn.inflight[mid]
        if self.net.answer_hook is not None:
            self.net.answer_hook(self.caller, self.callee, methname, res)
        if isinstance(res, Failure):
            d.errback(res)
        else:
            d.callback(res)
