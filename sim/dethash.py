"""Address-independent hashing for production objects that live in sets (DESIGN §2.7).

CPython hashes plain objects by address, so iteration order of a set of NativeStorageServer /
ServerTracker / Share objects changes from process to process (ASLR, allocation history).  Any
hash consistent with identity-equality is legal, so the harness installs one derived from stable
identifiers.  Only __hash__ is added; __eq__ stays identity."""
import itertools

_counter = itertools.count(1)


def _stable(obj, attr="_sim_hash"):
    h = obj.__dict__.get(attr)
    if h is None:
        h = obj.__dict__[attr] = next(_counter)     # creation order within the run: deterministic
    return h


def install():
    from allmydata.storage_client import NativeStorageServer
    from allmydata.immutable.upload import ServerTracker
    from allmydata.immutable.downloader.share import Share
    from allmydata.immutable.layout import ReadBucketProxy, WriteBucketProxy

    def h_server(self):
        return hash(self.get_serverid())

    def h_tracker(self):
        return hash((b"tracker", self.get_serverid()))

    def h_share(self):
        return hash((b"share", self._server.get_serverid(), self._shnum))
    NativeStorageServer.__hash__ = h_server
    ServerTracker.__hash__ = h_tracker
    Share.__hash__ = h_share
