"""Label-keyed deterministic choices (DESIGN §2.2).

Every choice is H(seed, stream, label, counter[stream,label]) — a keyed hash of a
stable label, not the next value of one sequential PRNG.  Replay is a pure function of
(seed, code); removing an operation during minimisation does not re-randomise the
choices of unrelated labels.
"""
import hashlib
import struct


class Chooser(object):
    def __init__(self, seed):
        self.seed = int(seed)
        self._key = hashlib.blake2b(struct.pack(">q", self.seed & 0x7FFFFFFFFFFFFFFF),
                                    digest_size=32).digest()
        self._ctr = {}
        self.draws = 0

    def _raw(self, stream, label, nbytes=8):
        k = (stream, label)
        c = self._ctr.get(k, 0)
        self._ctr[k] = c + 1
        self.draws += 1
        h = hashlib.blake2b(digest_size=max(nbytes, 8), key=self._key)
        h.update(repr((stream, label, c)).encode("utf-8"))
        return h.digest()

    def u64(self, stream, label):
        return struct.unpack(">Q", self._raw(stream, label)[:8])[0]

    def randrange(self, stream, label, n):
        """uniform in [0, n)"""
        if n <= 1:
            return 0
        return self.u64(stream, label) % n

    def randint(self, stream, label, lo, hi):
        """uniform in [lo, hi] inclusive"""
        return lo + self.randrange(stream, label, hi - lo + 1)

    def random(self, stream, label):
        return self.u64(stream, label) / float(1 << 64)

    def chance(self, stream, label, p):
        return self.random(stream, label) < p

    def pick(self, stream, label, seq):
        seq = list(seq)
        return seq[self.randrange(stream, label, len(seq))]

    def weighted(self, stream, label, pairs):
        """pairs: [(item, weight)]"""
        total = sum(w for _, w in pairs)
        x = self.random(stream, label) * total
        acc = 0.0
        for item, w in pairs:
            acc += w
            if x < acc:
                return item
        return pairs[-1][0]

    def bytes(self, stream, label, n):
        out = bytearray()
        i = 0
        while len(out) < n:
            out += self._raw(stream, (label, i), 64)
            i += 1
        return bytes(out[:n])

    def shuffle(self, stream, label, seq):
        seq = list(seq)
        for i in range(len(seq) - 1, 0, -1):
            j = self.randrange(stream, (label, i), i + 1)
            seq[i], seq[j] = seq[j], seq[i]
        return seq

    def sample(self, stream, label, seq, k):
        return self.shuffle(stream, label, seq)[:k]

    def sub(self, name):
        """A derived chooser whose streams are independent of this one's counters."""
        h = hashlib.blake2b(repr(name).encode(), key=self._key, digest_size=8).digest()
        return Chooser(struct.unpack(">q", h)[0])
