"""setup_cmd: verify interpreter, shims and that the production modules import from /repo/src under the sim reactor."""
import importlib, sys
from sim import boot

MODS = """allmydata.storage.server allmydata.storage.immutable allmydata.storage.mutable allmydata.storage.crawler
allmydata.storage.expirer allmydata.storage.http_server allmydata.storage.http_client allmydata.storage_client
allmydata.immutable.upload allmydata.immutable.encode allmydata.immutable.filenode allmydata.immutable.checker
allmydata.immutable.repairer allmydata.immutable.offloaded allmydata.immutable.downloader.node
allmydata.mutable.filenode allmydata.mutable.publish allmydata.mutable.retrieve allmydata.mutable.servermap
allmydata.mutable.checker allmydata.mutable.repairer allmydata.nodemaker allmydata.dirnode allmydata.client
allmydata.introducer.client allmydata.introducer.server allmydata.frontends.sftpd allmydata.web.root
allmydata.scripts.backupdb allmydata.grid_manager allmydata.hashtree allmydata.util.spans""".split()

def main():
    r = boot.install()
    from twisted.internet import reactor
    assert reactor is r, "sim reactor not installed"
    bad = 0
    for m in MODS:
        try:
            importlib.import_module(m)
        except Exception as e:
            print("SETUP-FAIL import %s: %r" % (m, e)); bad += 1
    import hypothesis, zfec, cryptography  # noqa
    print("setup ok: python %s, %d modules import from %s/src under SimReactor" % (sys.version.split()[0], len(MODS) - bad, boot.REPO))
    return 1 if bad else 0
