"""Process bootstrap: must be imported before anything imports twisted.internet.reactor
or allmydata.  Pins the hash seed (re-exec), puts /repo/src and the shims on sys.path,
installs the simulated reactor, and replaces time.time by simulated time (DESIGN §2.1, §2.7).
"""
import os
import sys

VERIF = os.path.dirname(os.path.dirname(os.path.abspath(__file__)))
REPO = os.environ.get("VERIF_REPO", "/repo")
GUARD = "TAHOE_LAFS_VERIF"


def reexec_pinned():
    """Re-execute the interpreter with PYTHONHASHSEED=0 (set iteration order is part of
    the replay key) and without writing bytecode into /repo."""
    if os.environ.get("PYTHONHASHSEED") != "0" or os.environ.get("PYTHONDONTWRITEBYTECODE") != "1" \
            or os.environ.get(GUARD) != "1":
        env = dict(os.environ)
        env["PYTHONHASHSEED"] = "0"
        env["PYTHONDONTWRITEBYTECODE"] = "1"
        env[GUARD] = "1"
        os.execve(sys.executable, [sys.executable] + sys.argv, env)


import time as _time
real_time = _time.time          # the only real clock; used for wall budgets and evidence only
real_monotonic = _time.monotonic
_installed = {}


def install():
    """Idempotent. Returns the SimReactor."""
    if "reactor" in _installed:
        return _installed["reactor"]
    sys.dont_write_bytecode = True
    for p in (os.path.join(VERIF, "shims"), os.path.join(REPO, "src"), VERIF):
        if p not in sys.path:
            sys.path.insert(0, p)
    assert "twisted.internet.reactor" not in sys.modules, "reactor imported before sim.boot.install()"
    assert "allmydata" not in sys.modules, "allmydata imported before sim.boot.install()"
    from sim.reactor import SimReactor
    r = SimReactor()
    from twisted.internet.main import installReactor
    installReactor(r)
    _time.time = r.seconds
    _installed["reactor"] = r
    # eliot: no destinations are added, so logging costs little and writes nothing.
    import allmydata  # noqa: F401  (import-time side effects happen under the sim reactor)
    import allmydata.util.cputhreadpool as ctp
    ctp._DISABLED = True   # engines may install the simulated pool instead (sim.threads)
    # twisted's default observer prints every log.err() to stderr; collect them instead (probes)
    from twisted.python import log as twlog
    r.logged_errors = []

    def _obs(ev):
        if ev.get("isError"):
            f = ev.get("failure")
            r.logged_errors.append(f.type.__name__ if f is not None else "error")
    twlog.startLoggingWithObserver(_obs, setStdout=False)
    return r


def get_reactor():
    return _installed["reactor"]
