"""crashfs — numbered crash points under the storage code's file access (DESIGN §2.6).

The names `open` and `os` in the storage modules are rebound to this layer.  Files are real
files in the run's scratch directory, but the raw layer is a counting io.FileIO subclass under
Python's ordinary io.Buffered* objects, so user-space buffering is the real buffering and every
write(2)/ftruncate/rename/unlink/rmdir/mkdir that reaches the "kernel" is a crash point.

kill at point n: CrashNow (a BaseException) is raised *before* call n is performed and every later
mutation of this incarnation (buffer flushes by `with` exits and finalisers included) is a no-op:
what survives is exactly what had reached the kernel — the `kill -9` model C29 states.
Also: injected ENOSPC/EIO at point n (the call fails, the process lives).
"""
import builtins
import errno
import io
import os as _os


class CrashNow(BaseException):
    sim_fatal = True


class Layer(object):
    def __init__(self):
        self.reset()

    def reset(self):
        self.count = 0
        self.crash_at = None       # 1-based point index
        self.fail_at = None        # (index, errno)
        self.crashed = False
        self.log = []              # (index, kind, detail)
        self.keep_log = True

    def point(self, kind, detail):
        """Called before a mutating call.  Returns False when the call must be skipped."""
        if self.crashed:
            return False
        self.count += 1
        if self.keep_log:
            self.log.append((self.count, kind, detail))
        if self.crash_at is not None and self.count == self.crash_at:
            self.crashed = True
            raise CrashNow("crash before point %d (%s %s)" % (self.count, kind, detail))
        if self.fail_at is not None and self.count == self.fail_at[0]:
            raise OSError(self.fail_at[1], _os.strerror(self.fail_at[1]))
        return True


LAYER = Layer()


class CountingFileIO(io.FileIO):
    def write(self, b):
        n = len(b) if not isinstance(b, memoryview) else b.nbytes
        if not LAYER.point("write", "%dB@%d %s" % (n, self._safe_tell(), _os.path.basename(self.name))):
            return n
        return super().write(b)

    def truncate(self, size=None):
        if not LAYER.point("truncate", "%r %s" % (size, _os.path.basename(self.name))):
            return size if size is not None else 0
        return super().truncate(size)

    def _safe_tell(self):
        try:
            return super().tell()
        except Exception:
            return -1


def sim_open(file, mode="r", buffering=-1, encoding=None, errors=None, newline=None, closefd=True, opener=None):
    binary = "b" in mode
    rawmode = mode.replace("b", "").replace("t", "")
    creating = ("w" in rawmode or "x" in rawmode or "a" in rawmode) and not _os.path.exists(file)
    truncating = "w" in rawmode and _os.path.exists(file)
    if creating:
        if not LAYER.point("create", _os.path.basename(str(file))):
            return _Dead(binary)
    elif truncating:
        if not LAYER.point("truncate-open", _os.path.basename(str(file))):
            return _Dead(binary)
    raw = CountingFileIO(file, rawmode)
    if buffering == 0:
        return raw
    if "+" in rawmode:
        buf = io.BufferedRandom(raw)
    elif "r" in rawmode:
        buf = io.BufferedReader(raw)
    else:
        buf = io.BufferedWriter(raw)
    if binary:
        return buf
    return io.TextIOWrapper(buf, encoding=encoding or "utf-8", errors=errors, newline=newline)


class _Dead(object):
    """File object handed out after the crash: swallows everything."""
    def __init__(self, binary):
        self.binary = binary

    def write(self, b):
        return len(b)

    def read(self, *a):
        return b"" if self.binary else ""

    def seek(self, *a):
        return 0

    def tell(self):
        return 0

    def flush(self):
        pass

    def truncate(self, *a):
        return 0

    def close(self):
        pass

    def __enter__(self):
        return self

    def __exit__(self, *a):
        return False


class SimOS(object):
    """Proxy for the `os` module: mutators are crash points, everything else passes through."""
    _MUT = ("rename", "replace", "unlink", "remove", "rmdir", "mkdir", "link", "chmod", "utime", "symlink")

    def __getattr__(self, name):
        return getattr(_os, name)

    def _mut(self, name, *a, **kw):
        if not LAYER.point(name, " ".join(_os.path.basename(str(x)) for x in a[:2])):
            return None
        return getattr(_os, name)(*a, **kw)

    def rename(self, *a, **kw):
        return self._mut("rename", *a, **kw)

    def replace(self, *a, **kw):
        return self._mut("replace", *a, **kw)

    def unlink(self, *a, **kw):
        return self._mut("unlink", *a, **kw)

    def remove(self, *a, **kw):
        return self._mut("remove", *a, **kw)

    def rmdir(self, *a, **kw):
        return self._mut("rmdir", *a, **kw)

    def link(self, *a, **kw):
        return self._mut("link", *a, **kw)

    def mkdir(self, *a, **kw):
        return self._mut("mkdir", *a, **kw)

    def makedirs(self, name, mode=0o777, exist_ok=False):
        # one point per directory actually created, like the real call sequence
        head = name
        todo = []
        while head and not _os.path.isdir(head):
            todo.append(head)
            head = _os.path.dirname(head.rstrip("/"))
        if not todo:
            if exist_ok:
                return None
            raise FileExistsError(errno.EEXIST, "File exists", name)
        for d in reversed(todo):
            if not LAYER.point("mkdir", _os.path.basename(d)):
                return None
            _os.mkdir(d, mode)
        return None


SIMOS = SimOS()
_PATCHED = []


def install(modules):
    """Rebind `open` and `os` in the given modules to the layer (idempotent)."""
    for m in modules:
        if m in _PATCHED:
            continue
        if hasattr(m, "os"):
            m.os = SIMOS
        m.open = sim_open
        _PATCHED.append(m)


def uninstall():
    for m in _PATCHED:
        if hasattr(m, "os"):
            m.os = _os
        if "open" in m.__dict__:
            del m.__dict__["open"]
    del _PATCHED[:]
