"""Simulated CPU thread pool (DESIGN §2.4).

Production hands pure CPU work (zfec encode/decode, block hashes, AES, RSA key parsing) to a real
thread pool through ``allmydata.util.cputhreadpool.defer_to_thread``; the awaiting coroutine resumes
at some later reactor turn, after whatever network events and timers happen to be delivered in the
meantime.  The shipped test switch ``_DISABLED = True`` removes those yield points.  This pool puts
them back under the simulator's control: the submitted function runs either at submission or at
completion (coin), and the completion is a reactor event after a seeded delay, so thread
completions interleave with message deliveries as they can in production.  No real thread exists.
"""
from twisted.internet import defer
from twisted.python import failure

DELAYS = [0.0, 0.0, 0.00005, 0.0005, 0.004, 0.03]


class SimThreadPool(object):
    def __init__(self, reactor, chooser):
        self.reactor = reactor
        self.ch = chooser
        self.submitted = 0
        self.completed = 0

    def install(self):
        import allmydata.util.cputhreadpool as ctp
        ctp._DISABLED = False
        ctp.deferToThreadPool = self.deferToThreadPool
        return self

    @staticmethod
    def uninstall():
        import allmydata.util.cputhreadpool as ctp
        ctp._DISABLED = True

    def deferToThreadPool(self, reactor, pool, f, *args, **kw):
        self.submitted += 1
        n = self.submitted
        d = defer.Deferred()
        name = getattr(f, "__qualname__", None) or getattr(f, "__name__", None) or type(f).__name__
        early = self.ch.chance("sched", ("thread-early", name, n), 0.5)
        box = []

        def compute():
            try:
                box.append((True, f(*args, **kw)))
            except Exception:
                box.append((False, failure.Failure()))

        if early:
            compute()
        delay = self.ch.pick("sched", ("thread-delay", name, n), DELAYS)

        def complete():
            if not box:
                compute()
            self.completed += 1
            self.reactor.thread_completions = getattr(self.reactor, 'thread_completions', 0) + 1
            ok, v = box[0]
            if ok:
                d.callback(v)
            else:
                d.errback(v)
        dc = self.reactor.callLater(delay, complete)
        dc.sim_label = "thread-done:%s" % name
        return d
