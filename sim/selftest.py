"""Determinism self-test: every check, N seeds, run in two fresh children each (and once inside a
chunk of neighbours); digests and violation clauses must agree.  ./check --selftest [Cnn ...] [--n N]"""
import importlib
import sys

from sim import boot
from sim.runner import run_forked
from sim import checkmain


def main(argv):
    boot.install()
    n = 24
    names = []
    it = iter(argv)
    for a in it:
        if a == "--n":
            n = int(next(it))
        else:
            names.append(a)
    if not names:
        import glob, os
        names = sorted(os.path.basename(p)[:-3] for p in glob.glob(os.path.join(boot.VERIF, "checks", "C*.py")))
    bad = 0
    for name in names:
        m = importlib.import_module("checks." + name)
        seeds = [7_000_000 + i * 37 for i in range(n)]
        items = [(name, s, "quick") for s in seeds]
        a = run_forked(checkmain._gen_exec, items, chunk=1, timeout=300)
        b = run_forked(checkmain._gen_exec, items, chunk=1, timeout=300, workers=5)
        c = run_forked(checkmain._gen_exec, items, chunk=max(2, getattr(m, "CHUNK", 1)), timeout=600)
        mism = 0
        for s, x, y, z in zip(seeds, a, b, c):
            dx, dy, dz = x.get("digest"), y.get("digest"), z.get("digest")
            cl = [checkmain._clauses(r) for r in (x, y, z)]
            if not (dx == dy == dz) or not (cl[0] == cl[1] == cl[2]):
                mism += 1
                print("  NONDETERMINISM %s seed=%d fresh=%s fresh2=%s chunked=%s clauses=%r" % (name, s, str(dx)[:10], str(dy)[:10], str(dz)[:10], cl))
        print("%s: %d seeds x (fresh, fresh@5 workers, chunked): %d mismatches" % (name, n, mism))
        bad += mism
    return 1 if bad else 0
