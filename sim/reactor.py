"""Simulated Twisted reactor: discrete-event time, total order, digest (DESIGN §2.1)."""
import hashlib
import heapq
import sys
import traceback
from time import process_time as _process_time

from twisted.internet.base import DelayedCall
from twisted.internet import defer
from twisted.python import failure
from twisted.internet.interfaces import IReactorTime, IReactorCore, IReactorFromThreads, IReactorThreads
from zope.interface import implementer

EPOCH = 1_700_000_000.0   # simulated wall clock starts here (2023-11-14)


class EventCap(Exception):
    pass


@implementer(IReactorTime, IReactorCore, IReactorFromThreads, IReactorThreads)
class SimReactor(object):
    """The slice of IReactorTime/IReactorCore/IReactorFromThreads the code under test uses."""

    running = True

    def __init__(self):
        self.reset_sim()

    # -- lifecycle ---------------------------------------------------------
    def reset_sim(self, start=EPOCH):
        self._now = float(start)
        self._heap = []
        self._seq = 0
        self.events = 0
        self._hash = hashlib.sha256()
        self.errors = []          # unhandled exceptions raised by timed calls
        self.logged_errors = []   # failures handed to twisted.python.log.err (collected by boot)
        self.trace = None         # optional list receiving (seq, t, label)
        self.node_skew = {}       # node name -> seconds added to seconds() while that node runs
        self.current_node = None
        self._triggers = []
        self.labeler = None
        self.after_event = None   # optional invariant hook, called after every event
        self._ev_cpu0 = None
        self._ev_label = None
        self.running = True
        # foolscap's eventual-send queue is a process global that remembers its pending timer
        _ev = sys.modules.get("foolscap.eventual")
        if _ev is not None:
            _ev._theSimpleQueue.__init__()

    # -- IReactorTime --------------------------------------------------------
    def seconds(self):
        n = self.current_node
        if n is not None:
            return self._now + self.node_skew.get(n, 0.0)
        return self._now

    def true_seconds(self):
        return self._now

    def callLater(self, delay, f, *args, **kw):
        assert callable(f), f
        assert delay >= 0, delay
        dc = DelayedCall(self._now + delay, f, args, kw, self._cancel, self._reset,
                         seconds=self.true_seconds)
        self._push(dc)
        return dc

    def callLaterKeyed(self, delay, key, f, *args, **kw):
        """callLater whose order among events due at the same instant is decided by `key`
        (a stable, label-derived integer) instead of by the order the calls were issued in."""
        dc = DelayedCall(self._now + delay, f, args, kw, self._cancel, self._reset,
                         seconds=self.true_seconds)
        dc._sim_key = key
        self._push(dc)
        return dc

    def callAtKeyed(self, when, key, f, *args, **kw):
        """callLaterKeyed at an absolute simulated instant (equal instants must compare equal: no now+delay rounding)."""
        dc = DelayedCall(max(when, self._now), f, args, kw, self._cancel, self._reset, seconds=self.true_seconds)
        dc._sim_key = key
        self._push(dc)
        return dc

    def _push(self, dc):
        self._seq += 1
        dc._sim_seq = self._seq
        heapq.heappush(self._heap, (dc.time, getattr(dc, "_sim_key", 0), self._seq, dc))

    def _cancel(self, dc):
        dc._sim_seq = -1

    def _reset(self, dc):
        self._push(dc)

    def getDelayedCalls(self):
        return [dc for (t, k, s, dc) in self._heap
                if dc._sim_seq == s and not dc.cancelled and not dc.called]

    # -- IReactorCore / FromThreads (minimal) ---------------------------------
    def callFromThread(self, f, *a, **kw):
        self.callLater(0, f, *a, **kw)

    def callWhenRunning(self, f, *a, **kw):
        self.callLater(0, f, *a, **kw)

    def addSystemEventTrigger(self, phase, event, f, *a, **kw):
        t = (phase, event, f, a, kw)
        self._triggers.append(t)
        return t

    def removeSystemEventTrigger(self, t):
        try:
            self._triggers.remove(t)
        except ValueError:
            pass

    def fire_shutdown(self):
        for (phase, event, f, a, kw) in list(self._triggers):
            if event == "shutdown":
                f(*a, **kw)

    def stop(self):
        self.running = False

    def callInThread(self, f, *a, **kw):
        # no real threads in simulation: run as a later event
        self.callLater(0, f, *a, **kw)

    def getThreadPool(self):
        raise NotImplementedError("SimReactor has no thread pool")

    def suggestThreadPoolSize(self, n):
        pass

    def installResolver(self, r):
        pass

    # -- run loop ------------------------------------------------------------
    def _label(self, dc):
        f = dc.func
        lab = getattr(dc, "sim_label", None)
        if lab is not None:
            return lab
        name = getattr(f, "__qualname__", None) or getattr(f, "__name__", None)
        if name is None:
            name = type(f).__name__
        return name

    def pending(self):
        for (t, k, s, dc) in self._heap:
            if dc._sim_seq == s and not dc.cancelled and not dc.called:
                return True
        return False

    def next_time(self):
        while self._heap:
            t, k, s, dc = self._heap[0]
            if dc._sim_seq != s or dc.cancelled or dc.called:
                heapq.heappop(self._heap)
                continue
            if dc.delayed_time > 0.0:
                # postponed by DelayedCall.reset(): re-key it, something else may be due first
                heapq.heappop(self._heap)
                dc.activate_delay()
                self._push(dc)
                continue
            return dc.time
        return None

    def step(self):
        """Run one event; return False at quiescence."""
        while self._heap:
            t, k, s, dc = heapq.heappop(self._heap)
            if dc._sim_seq != s or dc.cancelled or dc.called:
                continue
            if dc.delayed_time > 0.0:
                dc.activate_delay()
                self._push(dc)
                continue
            if t > self._now:
                self._now = t
            dc.called = 1
            self.events += 1
            label = self._label(dc)
            rec = "%d|%.6f|%s\n" % (self.events, self._now - EPOCH, label)
            self._hash.update(rec.encode("utf-8", "replace"))
            if self.trace is not None:
                self.trace.append(rec)
            self._ev_cpu0 = _process_time()       # (real CPU clock: spin detection only, never read by simulated code)
            self._ev_label = label
            try:
                dc.func(*dc.args, **dc.kw)
            except BaseException as e:
                if isinstance(e, (KeyboardInterrupt, SystemExit)) or getattr(e, "sim_fatal", False):
                    raise
                self.errors.append((label, "".join(traceback.format_exception(*sys.exc_info()))))
            self._ev_cpu0 = None
            if self.after_event is not None:
                self.after_event()
            return True
        return False

    def run_until(self, predicate=None, max_events=2_000_000, until_time=None):
        """Pop events until predicate() holds, quiescence, or until_time.
        Returns 'done' | 'quiescent' | 'time'; raises EventCap at the cap."""
        n = 0
        while True:
            if predicate is not None and predicate():
                return "done"
            if until_time is not None:
                nt = self.next_time()
                if nt is None or nt > until_time:
                    self._now = max(self._now, until_time)
                    return "time"
            if not self.step():
                return "quiescent"
            n += 1
            if n >= max_events:
                raise EventCap("event cap %d reached" % max_events)

    def advance(self, seconds, max_events=2_000_000):
        return self.run_until(None, max_events, until_time=self._now + seconds)

    def run_deferred(self, d, max_events=2_000_000):
        """Drive the simulation until d fires.  Returns ('ok', value) | ('err', Failure) |
        ('hung', None) when quiescence is reached with d unfired."""
        box = []
        d.addCallbacks(lambda r: box.append(("ok", r)), lambda f: box.append(("err", f)))
        self.run_until(lambda: bool(box), max_events)
        if not box:
            return ("hung", None)
        return box[0]

    def drop_pending(self):
        """A simulated process died: its timers die with it."""
        for (t, k, s, dc) in self._heap:
            dc._sim_seq = -1
        self._heap = []

    def digest(self):
        return self._hash.hexdigest()

    def note(self, text):
        """Mix harness-level facts (op results) into the digest."""
        self._hash.update(("#" + text + "\n").encode("utf-8", "replace"))
        if self.trace is not None:
            self.trace.append("#" + text + "\n")
