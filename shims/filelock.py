"""Stand-in for `filelock` (not installed); allmydata.util.pid imports it, the sim never runs it."""
class Timeout(Exception):
    pass
class FileLock(object):
    def __init__(self, path, timeout=-1): self.path = path
    def __enter__(self): return self
    def __exit__(self, *a): return False
    def acquire(self, *a, **k): return self
    def release(self, *a, **k): pass
