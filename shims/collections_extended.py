"""Stand-in for the `collections_extended` package (not installed in this sandbox).

Only `RangeMap` is provided, with the subset of the real API that
allmydata.storage.immutable and allmydata.storage.http_client use:
set(value, start, stop), delete(start, stop), ranges(start=None, stop=None), empty().
Semantics follow collections_extended 2.x: half-open ranges, adjacent ranges with
equal values merge, ranges() clips to the query window and yields MappedRange
objects that unpack as (start, stop, value).  /verif/sim/selftest.py tests this
against a per-integer dict model.
"""
from bisect import bisect_right


class MappedRange(object):
    __slots__ = ("start", "stop", "value")

    def __init__(self, start, stop, value):
        self.start = start
        self.stop = stop
        self.value = value

    def __iter__(self):
        yield self.start
        yield self.stop
        yield self.value

    def __eq__(self, other):
        if isinstance(other, MappedRange):
            return (self.start, self.stop, self.value) == (other.start, other.stop, other.value)
        if isinstance(other, tuple):
            return (self.start, self.stop, self.value) == other
        return NotImplemented

    def __hash__(self):
        return hash((self.start, self.stop, self.value))

    def __repr__(self):
        return "MappedRange(%r, %r, %r)" % (self.start, self.stop, self.value)


class RangeMap(object):
    def __init__(self):
        # sorted, disjoint, non-adjacent-equal list of [start, stop, value]
        self._r = []

    def _cut(self, start, stop):
        """Remove [start, stop) from the map; return True if every point was mapped."""
        out = []
        covered = 0
        for (s, e, v) in self._r:
            if e <= start or s >= stop:
                out.append([s, e, v])
                continue
            covered += min(e, stop) - max(s, start)
            if s < start:
                out.append([s, start, v])
            if e > stop:
                out.append([stop, e, v])
        self._r = out
        return covered == (stop - start)

    def set(self, value, start=None, stop=None):
        if start is None or stop is None:
            raise NotImplementedError("shim supports bounded ranges only")
        if start >= stop:
            if start > stop:
                raise ValueError("start > stop")
            return
        self._cut(start, stop)
        self._r.append([start, stop, value])
        self._r.sort(key=lambda r: r[0])
        merged = []
        for r in self._r:
            if merged and merged[-1][1] == r[0] and merged[-1][2] == r[2]:
                merged[-1][1] = r[1]
            else:
                merged.append(r)
        self._r = merged

    def delete(self, start=None, stop=None):
        if start is None or stop is None:
            raise NotImplementedError("shim supports bounded ranges only")
        if start >= stop:
            return
        saved = [list(r) for r in self._r]
        if not self._cut(start, stop):
            self._r = saved
            raise KeyError((start, stop))

    def empty(self, start=None, stop=None):
        if start is None or stop is None:
            raise NotImplementedError("shim supports bounded ranges only")
        self._cut(start, stop)

    def ranges(self, start=None, stop=None):
        res = []
        for (s, e, v) in self._r:
            if start is not None and e <= start:
                continue
            if stop is not None and s >= stop:
                continue
            cs = s if start is None else max(s, start)
            ce = e if stop is None else min(e, stop)
            if cs < ce:
                res.append(MappedRange(cs, ce, v))
        return res

    def __iter__(self):
        return iter(self.ranges())

    def __len__(self):
        return len(self._r)

    def __bool__(self):
        return bool(self._r)

    def __contains__(self, key):
        return any(s <= key < e for (s, e, _) in self._r)

    def __getitem__(self, key):
        for (s, e, v) in self._r:
            if s <= key < e:
                return v
        raise KeyError(key)

    def __repr__(self):
        return "RangeMap(%r)" % (self._r,)
