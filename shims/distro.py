"""Stand-in for the `distro` package (not installed); only informational uses."""
def name(pretty=False): return "simulated"
def version(pretty=False, best=False): return "0"
def id(): return "simulated"
def linux_distribution(full_distribution_name=True): return ("simulated", "0", "")
