"""immsim — immutable-file properties on gridsim (C01-C08, C17, C45, C46)."""
import hashlib
import os
import struct
import tempfile
from io import BytesIO

from zope.interface import implementer

from engines import gridsim
from engines.gridsim import R, Grid, run, settle, EPOCH
from engines.storesim import pat_bytes
from oracles import refhash, sharecheck, matching
from sim.choice import Chooser
from sim.reactor import EventCap

from twisted.internet import defer
from twisted.internet.interfaces import IConsumer
from twisted.python.failure import Failure

from allmydata.immutable import upload as upload_mod, layout as layout_mod
from allmydata.immutable.upload import Data, FileHandle, FileName, EncryptAnUploadable
from allmydata.immutable.downloader import finder as finder_mod
from allmydata.interfaces import (IUploadable, NotEnoughSharesError, NoSharesError, UploadUnhappinessError,
                                  DownloadStopped)
from allmydata.util import base32


# ------------------------------------------------------------------------------------------
# knobs (swarm style: correctness must not depend on one configuration)
# ------------------------------------------------------------------------------------------
_WBP_DEFAULTS = layout_mod.WriteBucketProxy.__init__.__defaults__


def apply_knobs(kn):
    d = list(_WBP_DEFAULTS)
    d[-1] = kn.get("batch", 1_000_000)
    layout_mod.WriteBucketProxy.__init__.__defaults__ = tuple(d)
    EncryptAnUploadable.CHUNKSIZE = kn.get("chunksize", 50 * 1024)
    layout_mod.FORCE_V2 = bool(kn.get("force_v2", False))
    finder_mod.ShareFinder.OVERDUE_TIMEOUT = kn.get("overdue", 10.0)
    fd = list(finder_mod.ShareFinder.__init__.__defaults__)
    fd[-1] = kn.get("max_outstanding", 10)
    finder_mod.ShareFinder.__init__.__defaults__ = tuple(fd)
    # the reader's initial guess of the segment size (a class attribute of DownloadNode; readers and uploaders are
    # configured independently, so the guess may be smaller or larger than the file's real segment size)
    from allmydata.immutable.downloader import node as dlnode_mod
    dlnode_mod.DownloadNode.default_max_segment_size = kn.get("guess_seg", 128 * 1024)


def gen_knobs(ch):
    return {"batch": ch.pick("config", "batch", [16, 100, 1000, 1_000_000]),
            "chunksize": ch.pick("config", "chunksize", [7, 64, 1000, 50 * 1024]),
            "force_v2": ch.chance("config", "force_v2", 0.15),
            "overdue": ch.pick("config", "overdue", [0.01, 0.05, 10.0, 10.0]),
            "max_outstanding": ch.pick("config", "max_outstanding", [1, 2, 10]),
            "guess_seg": ch.pick("config", "guess_seg", [128 * 1024, 128 * 1024, 16, 96, 1000, 5000])}


def gen_net(ch):
    return {"threads": ch.pick("config", "threads", ["sync", "sync", "async"]), "lat_profile": ch.pick("config", "lat_profile", ["uniform", "uniform", "heavy", "fifo"]),
            "jitter": ch.pick("config", "jitter", [0.0005, 0.05, 0.5]),
            "base_lat": 0.001, "batch": ch.pick("config", "batch", [0, 0, 0, 0.001, 0.02, 0.3])}


def gen_encoding(ch, tier, max_n=16):
    n = ch.weighted("config", "n", [(1, 1), (2, 1), (3, 2), (4, 2), (5, 2), (7, 1), (10, 2), (16, 1), (max_n, 0.5)])
    n = min(n, max_n)
    k = ch.randint("config", "k", 1, n)
    happy = ch.randint("config", "happy", 1, n)
    return k, happy, n


def gen_size(ch, k, seg, tier, label="size"):
    big = 64 * 1024 if tier == "quick" else 300 * 1024
    segk = max(k, (seg // k) * k) if seg >= k else k     # effective segment size is a multiple of k
    cands = [0, 1, 54, 55, 56, 57, 100, segk - 1, segk, segk + 1, 2 * segk - 1, 2 * segk, 2 * segk + 1, 3 * segk + k - 1,
             5 * segk, 7 * segk + 1, 8 * segk, k - 1, k, k + 1, 16, 17, 15]
    cands = [c for c in cands if 0 <= c <= big]
    if ch.chance("config", label + "-rand", 0.25):
        return ch.randint("config", label + "-r", 0, min(big, 40 * segk + 100))
    return ch.pick("config", label, cands)


def plaintext_of(case):
    return pat_bytes(case["cfg"]["datapat"], case["cfg"]["size"])


# ------------------------------------------------------------------------------------------
# consumers / uploadables
# ------------------------------------------------------------------------------------------
@implementer(IConsumer)
class RecConsumer(object):
    """Records every write; optional pause/resume/stop at drawn write counts."""
    def __init__(self, name, pause_at=None, pause_for=1.0, stop_at=None, flaps=None):
        self.name = name
        self.flaps = flaps or []
        self.chunks = []
        self.producer = None
        self.pause_at = pause_at
        self.pause_for = pause_for
        self.stop_at = stop_at
        self.nwrites = 0
        self.paused = 0
        self.stopped = False
        self.write_after_stop = 0
        self.done = False

    def registerProducer(self, p, streaming):
        self.producer = p
        if self.stop_at == 0:
            self.stopped = True
            p.stopProducing()
            return
        for (t_, dt_) in self.flaps:
            # flow control that has nothing to do with this consumer's writes (a shared connection's window closes and
            # re-opens): pause and, a moment later, resume -- typically while a segment request is outstanding
            dc = R.callLater(t_, self._flap, p, dt_)
            dc.sim_label = "consumer-flap:" + self.name
        if isinstance(self.stop_at, float):
            # the consumer gives up after a while (a closed browser tab): typically while a segment is being fetched
            dc = R.callLater(self.stop_at, self._stop_later, p)
            dc.sim_label = "consumer-stop:" + self.name
        if not streaming:
            # pull producer (LiteralFileNode uses FileSender): ask until it unregisters
            n = 0
            while self.producer is p and n < 100000:
                p.resumeProducing()
                n += 1

    def unregisterProducer(self):
        self.producer = None

    def write(self, data):
        if self.stopped:
            self.write_after_stop += 1
        self.chunks.append(bytes(data))
        self.nwrites += 1
        if self.producer is not None:
            if self.stop_at is not None and self.nwrites == self.stop_at:
                self.stopped = True
                self.producer.stopProducing()
            elif self.pause_at is not None and self.nwrites == self.pause_at:
                self.paused += 1
                self.producer.pauseProducing()
                p = self.producer
                dc = R.callLater(self.pause_for, self._resume, p)
                dc.sim_label = "consumer-resume:" + self.name

    def _stop_later(self, p):
        if self.producer is p and not self.stopped:
            self.stopped = True
            p.stopProducing()

    def _resume(self, p):
        if self.producer is p:
            p.resumeProducing()

    def _flap(self, p, dt):
        if self.producer is p and not self.stopped:
            self.paused += 1
            p.pauseProducing()
            if dt <= 0:
                p.resumeProducing()
            else:
                dc = R.callLater(dt, self._resume, p)
                dc.sim_label = "consumer-flap-resume:" + self.name

    def data(self):
        return b"".join(self.chunks)


@implementer(IUploadable)
class ChunkyUploadable(object):
    """Wraps a real uploadable; read() answers with several smaller strings (legal per IUploadable)."""
    def __init__(self, inner, ch, name):
        self.inner = inner
        self.ch = ch
        self.name = name
        self.nreads = 0

    def __getattr__(self, k):
        return getattr(self.inner, k)

    def read(self, length):
        d = self.inner.read(length)

        def split(lst):
            data = b"".join(lst)
            out, i = [], 0
            while i < len(data):
                self.nreads += 1
                step = self.ch.pick("sched", ("upchunk", self.name, self.nreads), [1, 2, 3, 7, 16, 100, 1000])
                out.append(data[i:i + step])
                i += step
            return out or lst
        d.addCallback(split)
        return d


def make_uploadable(how, data, convergence, ch, tmpdir, name):
    if how == "data":
        return Data(data, convergence=convergence)
    if how == "filehandle":
        return FileHandle(BytesIO(data), convergence=convergence)
    if how in ("filehandle-at-end", "filehandle-mid"):
        # a handle that was just written (SFTP hands over its temporary file like this): not positioned at offset 0
        f = BytesIO(data)
        f.seek(len(data) if how == "filehandle-at-end" else len(data) // 2)
        return FileHandle(f, convergence=convergence)
    if how == "filename":
        p = os.path.join(tmpdir, "up-%s" % name)
        with open(p, "wb") as f:
            f.write(data)
        return FileName(p, convergence=convergence)
    if how == "chunky":
        return ChunkyUploadable(Data(data, convergence=convergence), ch, name)
    raise ValueError(how)


# ------------------------------------------------------------------------------------------
# monitors
# ------------------------------------------------------------------------------------------
class Monitors(object):
    """Transport-level monitors shared by the profiles (C17 secrets)."""
    def __init__(self, grid, viol):
        self.grid = grid
        self.viol = viol
        self.alloc_calls = []
        self.checked = 0
        grid.net.call_filter = self.on_call

    def on_call(self, caller, callee, methname, args, kwargs, res):
        if methname == "allocate_buckets":
            self.alloc_calls.append((caller, callee, args[0], args[1], args[2], set(args[3]), args[4], res))
        elif methname == "add_lease":
            self.alloc_calls.append((caller, callee, args[0], args[1], args[2], None, None, res))

    def check_secrets(self, key_by_si):
        """C17: storage index and lease secrets seen on the wire == independent derivation."""
        g = self.grid
        for (caller, callee, si, renew, cancel, shnums, size, res) in self.alloc_calls:
            c = [c for c in g.clients if c.sim_name == caller][0]
            s = g.server_by_name(callee)
            with open(os.path.join(c.sim_dir, "private", "secret"), "rb") as f:
                lease_secret = base32.a2b(f.read().strip())
            want_r, want_c = refhash.lease_secrets(lease_secret, si, s.tubid)
            self.checked += 1
            if renew != want_r or cancel != want_c:
                self.viol.append({"clause": "C17.lease-secret", "sig": "C17.lease-secret",
                                  "detail": "lease secrets sent by %s to %s for SI %s differ from the specified derivation" % (
                                      caller, callee, base32.b2a(si))})
            if key_by_si is not None and si in key_by_si:
                if refhash.storage_index_from_key(key_by_si[si]) != si:
                    self.viol.append({"clause": "C17.storage-index", "sig": "C17.storage-index",
                                      "detail": "storage index on the wire is not the tagged hash of the cap's key"})
            elif key_by_si is not None:
                self.viol.append({"clause": "C17.storage-index", "sig": "C17.storage-index.unknown",
                                  "detail": "allocate_buckets for SI %s which is not derived from any cap of this run" % base32.b2a(si)})


def err_name(f):
    if isinstance(f, Failure):
        return f.type.__name__
    return type(f).__name__


# ------------------------------------------------------------------------------------------
# profile: roundtrip (C01, C04, C05, C17)
# ------------------------------------------------------------------------------------------
def gen_roundtrip(seed, tier, focus):
    ch = Chooser(seed)
    k, happy, n = gen_encoding(ch, tier)
    seg = ch.pick("config", "seg", [k, 2 * k, 3 * k, 16, 56, 64, 100, 1024, 4096, 128 * 1024])
    nservers = ch.randint("config", "nservers", 1, n + 3)
    size = gen_size(ch, k, seg, tier)
    if focus == "C05" and ch.chance("config", "lit", 0.3):
        size = ch.pick("config", "litsize", [0, 1, 30, 54, 55, 56, 57])
    cfg = {"k": k, "happy": happy, "n": n, "seg": seg, "nservers": nservers, "size": size,
           "datapat": ch.randint("config", "datapat", 1, 1 << 30),
           "convergence": ch.pick("config", "conv", ["A", "A", "B", None] + (["", "A"] if focus == "C05" else [])),
           "how": ch.pick("config", "how", ["data", "filehandle", "filename", "chunky"] + (["filehandle-at-end", "filehandle-mid"] if focus == "C05" else [])),
           "knobs": gen_knobs(ch), "net": gen_net(ch)}
    if focus == "C04":
        cfg["warm"] = ch.chance("config", "warm", 0.4)
        # random access is about files of several segments: few literals, few single-segment files, and an upload that
        # can succeed
        segk_ = max(k, (seg // k) * k) if seg >= k else k
        if (size <= 55 or size <= segk_) and ch.chance("config", "c04-multiseg", 0.8):
            if segk_ > 4096:
                cfg["seg"] = seg = ch.pick("config", "c04-seg", [3 * k, 64, 100, 1024])
                segk_ = max(k, (seg // k) * k)
            cfg["size"] = size = max(56, ch.pick("config", "c04-size", [2 * segk_, 3 * segk_ + 1, 5 * segk_ - 1, 7 * segk_, 4 * segk_ + k]))
        if min(nservers, n) < happy and ch.chance("config", "c04-happy", 0.8):
            cfg["happy"] = happy = min(nservers, n)
    if focus == "C01" and ch.chance("config", "second-file", 0.35):
        # a second, different file stored and read by the same process afterwards: same segment size, another length and/or
        # another k (whatever one download remembers must not leak into the next)
        cfg["second"] = {"size": max(56, ch.pick("config", "second-size", [size + 1, size + seg, size - 1, 2 * size + 3, size + 3 * max(1, seg) + 1, max(56, size // 2)])),
                         "k": ch.pick("config", "second-k", [k, k, max(1, k - 1), min(n, k + 1)]),
                         "pat": ch.randint("config", "second-pat", 1, 1 << 30)}
        # (the second file is cut into segments of the first file's real segment size: keep it to a few dozen segments)
        effseg0 = ((max(1, min(seg, size) if size else seg) + k - 1) // k) * k
        cfg["second"]["size"] = max(56, min(cfg["second"]["size"], 40 * effseg0 + 3))
    ops = []
    nreads = ch.randint("workload", "nreads", 1, 4) if focus in ("C04",) else ch.randint("workload", "nreads", 1, 2)
    esize = max(size, 1)
    for i in range(nreads):
        if i == 0 and focus != "C04":
            ops.append(["read", 0, None, 0.0, None, None, None])
            continue
        off = ch.pick("workload", ("off", i), [0, 0, 1, 15, 16, 17, seg - 1, seg, seg + 1, 2 * seg, size - 1, size, size + 1, size + 100,
                                               ch.randrange("workload", ("offr", i), esize + 5)])
        off = max(0, off)
        sz = ch.pick("workload", ("sz", i), [None, 0, 1, 16, 17, seg, seg + 1, 2 * seg - 1, size, size + 10,
                                             ch.randrange("workload", ("szr", i), esize + 20)])
        start = ch.pick("workload", ("start", i), [0.0, 0.0, 0.001, 0.02, 0.3])
        pause_at = ch.pick("workload", ("pause", i), [None, None, 1, 2, 3]) if focus == "C04" else None
        stop_at = ch.pick("workload", ("stop", i), [None, None, None, 0, 1, 2, 0.0004, 0.003, 0.03, 0.4]) if focus == "C04" else None
        ops.append(["read", off, sz, start, pause_at, stop_at, ch.pick("workload", ("pfor", i), [0.01, 1.0, 20.0])])
        if focus == "C04" and ch.chance("workload", ("flap", i), 0.3):
            ops[-1].append([[ch.pick("workload", ("flap-t", i, j), [0.0, 0.0002, 0.001, 0.003, 0.01, 0.05]),
                             ch.pick("workload", ("flap-dt", i, j), [0.0, 0.0, 0.0005, 0.004])] for j in range(ch.randint("workload", ("nflap", i), 1, 3))])
    return {"engine": "immsim", "profile": "roundtrip", "focus": focus, "seed": seed, "cfg": cfg, "ops": ops, "faults": []}


def conv_secret(tag):
    if tag == "":
        return b""          # the empty string is a valid convergence secret
    return None if tag is None else hashlib.sha256(b"conv-" + tag.encode()).digest()[:16]


def happiness_reachable(cfg):
    """Fault-free, all servers writable and empty: N shares over S servers -> happiness min(S, N)."""
    return min(cfg["nservers"], cfg["n"]) >= cfg["happy"]


def exec_roundtrip(case):
    from sim.runner import child_tmp
    cfg = case["cfg"]
    focus = case.get("focus", "C01")
    base = tempfile.mkdtemp(dir=child_tmp())
    R.reset_sim()
    apply_knobs(cfg["knobs"])
    viol = []
    probes = {}

    def probe(nm):
        probes[nm] = probes.get(nm, 0) + 1

    def bad(prop, clause, detail, sig=None):
        viol.append({"clause": "%s.%s" % (prop, clause), "sig": sig or "%s.%s" % (prop, clause), "detail": detail})

    g = Grid(case["seed"], base, cfg["net"])
    try:
        for i in range(cfg["nservers"]):
            g.add_server()
        mon = Monitors(g, viol)
        conv = conv_secret(cfg["convergence"])
        c = g.add_client(k=cfg["k"], happy=cfg["happy"], n=cfg["n"], segsize=cfg["seg"], convergence=conv_secret("A"))
        data = plaintext_of(case)
        up = make_uploadable(cfg["how"], data, conv, g.ch, base, "u0")
        msgs_before = g.net.msgid
        st, res = run(c.upload(up))
        if st == "hung":
            bad("C01", "upload-hung", "upload Deferred never fired (quiescent)")
            return finish(g, viol, probes, case)
        if st == "err":
            if res.check(UploadUnhappinessError) and not happiness_reachable(cfg):
                probe("unhappy-expected")
                return finish(g, viol, probes, case)
            bad("C01", "upload-failed", "fault-free upload failed although happiness %d is reachable on %d servers: %s" % (
                cfg["happy"], cfg["nservers"], res.getTraceback()[-800:]), sig="C01.upload-failed." + err_name(res))
            return finish(g, viol, probes, case)
        cap = res.get_uri()
        R.note("cap " + cap.decode("ascii"))
        lit = cap.startswith(b"URI:LIT:")
        # --- C05 literal rule
        if (len(data) <= 55) != lit:
            bad("C05", "lit-threshold", "size %d produced %r" % (len(data), cap[:12]))
        if lit:
            probe("literal")
            if g.net.msgid != msgs_before:
                bad("C05", "lit-used-servers", "literal upload sent %d messages" % (g.net.msgid - msgs_before))
            # readable with every server partitioned away
            for s in g.servers:
                g.net.disconnect(c.sim_name, s.name, "partition for LIT read")
            m0 = g.net.msgid
            node = c.create_node_from_uri(cap)
            cons = RecConsumer("lit")
            st2, r2 = run(node.read(cons))
            if st2 != "ok" or cons.data() != data:
                bad("C05", "lit-read", "literal cap did not read back its data without servers (%s)" % st2)
            if g.net.msgid != m0:
                bad("C05", "lit-used-servers", "literal read sent messages")
            # C04 on literal nodes
            for op in case["ops"]:
                _, off, sz, start, pause_at, stop_at, pfor = op[:7]
                cons = RecConsumer("litr")
                st3, r3 = run(node.read(cons, off, sz))
                want = data[off:] if sz is None else data[off:off + sz]
                if st3 != "ok" or cons.data() != want:
                    bad("C04", "lit-range", "literal read(%r,%r) -> %s, %d bytes; expected %d" % (off, sz, st3, len(cons.data()), len(want)))
            return finish(g, viol, probes, case)
        probe("chk")
        capd = sharecheck.parse_chk_cap(cap)
        if capd["size"] != len(data) or capd["k"] != cfg["k"] or capd["n"] != cfg["n"]:
            bad("C01", "cap-fields", "cap %r does not carry size/k/n of the upload" % cap)
        # --- C05 key rule
        effseg = effective_segsize(cfg, len(data))
        if conv is not None:
            want_key = refhash.convergence_key(cfg["k"], cfg["n"], effseg, conv, data)
            if capd["key"] != want_key:
                bad("C05", "convergent-key", "key in cap is not the convergence hash of (plaintext, secret, k=%d, n=%d, segsize=%d)" % (
                    cfg["k"], cfg["n"], effseg))
        else:
            probe("random-key")
            if capd["key"] not in g.urandom_log:
                bad("C05", "key-not-random", "without a convergence secret the key is not fresh output of the random source")
        si = refhash.storage_index_from_key(capd["key"])
        mon.check_secrets({si: capd["key"]})
        # --- shares on disk validate independently and decode to the plaintext (C01 interoperability half)
        where, pieces = sharecheck.good_shares_on_disk(g.servers, si, capd)
        total = sum(len(s.shares_of(si)) for s in g.servers)
        if len(where) < cfg["k"] or sum(len(v) for v in where.values()) != total:
            bad("C01", "shares-invalid", "after a successful upload only %d distinct share numbers validate independently (%d share files on disk)" % (len(where), total))
        else:
            try:
                pt = sharecheck.decode(pieces, capd, capd["key"])
                if pt != data:
                    bad("C01", "independent-decode", "independent decode of the stored shares differs from the uploaded bytes")
            except sharecheck.Bad as e:
                bad("C01", "independent-decode", "independent decode failed: %s" % e)
        # --- reads through a fresh client
        c2 = g.add_client(k=3, happy=1, n=10)
        node = c2.create_node_from_uri(cap)
        if cfg.get("warm") and len(data) > 0:
            # an earlier read on the same node has completed: the node knows the file's real segmentation when the
            # concurrent reads arrive
            wc = RecConsumer("warm")
            stw, rw_ = run(node.read(wc, 0, 1))
            settle()
            if stw != "ok" or wc.data() != data[:1]:
                bad("C04", "bytes", "warm-up read(0,1) returned %r (%s)" % (wc.data(), stw))
            probe("warm-node")
        pending = []
        for i, op in enumerate(case["ops"]):
            _, off, sz, start, pause_at, stop_at, pfor = op[:7]
            cons = RecConsumer("r%d" % i, pause_at, pfor or 1.0, stop_at, op[7] if len(op) > 7 else None)
            box = {}

            def go(cons=cons, off=off, sz=sz, box=box):
                d = node.read(cons, off, sz)
                d.addCallbacks(lambda r: box.setdefault("r", ("ok", r)), lambda f: box.setdefault("r", ("err", f)))
            if start:
                dc = R.callLater(start, go)
                dc.sim_label = "start-read-%d" % i
            else:
                go()
            pending.append((op, cons, box))
        settle()
        for (op, cons, box) in pending:
            _, off, sz, start, pause_at, stop_at, pfor = op[:7]
            want = data[off:] if sz is None else data[off:off + sz]
            got = cons.data()
            if "r" not in box:
                bad("C46", "read-hung", "read(%r,%r) never completed (queue drained)" % (off, sz), sig="C46.read-hung.faultfree")
                continue
            st, r = box["r"]
            if cons.stopped:
                probe("read-stopped")
                if st != "err" or not r.check(DownloadStopped):
                    bad("C04", "stop-outcome", "stopped read finished with %s %s" % (st, err_name(r) if st == "err" else ""))
                if not want.startswith(got):
                    bad("C04", "stopped-prefix", "stopped read delivered bytes that are not a prefix of the range")
                continue
            if cons.paused:
                probe("read-paused")
            if st != "ok":
                bad("C01" if (off == 0 and sz is None) else "C04", "read-failed", "read(%r,%r) of a fault-free file failed: %s" % (off, sz, r.getTraceback()[-600:]),
                    sig="C0x.read-failed." + err_name(r))
                continue
            if got != want:
                prop = "C01" if (off == 0 and sz is None) else "C04"
                bad(prop, "bytes", "read(%r,%r) on size %d (k=%d seg=%d): got %d bytes, expected %d; first difference at %s" % (
                    off, sz, len(data), cfg["k"], cfg["seg"], len(got), len(want), first_diff(got, want)))
            probe("read-ok" + ("-range" if (off or sz is not None) else "-whole"))
        dn = getattr(node, "_cnode", None)
        dn = getattr(dn, "_node", None)
        if dn is not None:
            if getattr(dn, "_segment_requests", None):
                bad("C04", "leftover-requests", "download node still holds %d segment requests at quiescence" % len(dn._segment_requests))
            if getattr(dn, "_active_segment", None) is not None:
                bad("C04", "leftover-active", "download node still has an active segment at quiescence")
        if cfg.get("second"):
            sec = cfg["second"]
            effseg_ = effective_segsize(cfg, len(data))
            # keep the real segment size of the first file: the second file's segment size is min(max_seg, size) rounded up to k2
            c2b = g.add_client(k=sec["k"], happy=1, n=cfg["n"], segsize=effseg_, convergence=conv_secret("A"))
            data2 = pat_bytes(sec["pat"], sec["size"])
            st6, r6 = run(c2b.upload(Data(data2, convergence=None)))
            if st6 == "ok":
                rd2 = g.add_client(k=3, happy=1, n=10)
                for (off2, sz2) in ((0, None), (max(0, sec["size"] - 7), None)):
                    cons2 = RecConsumer("second")
                    st7, r7 = run(rd2.create_node_from_uri(r6.get_uri()).read(cons2, off2, sz2))
                    want2 = data2[off2:]
                    if st7 != "ok":
                        bad("C01", "read-failed", "a second file (%d bytes, k=%d, segment size %d) read after the first (%d bytes, k=%d) in the same process failed: %s" % (
                            sec["size"], sec["k"], effseg_, len(data), cfg["k"], r7.getTraceback()[-500:] if st7 == "err" else st7),
                            sig="C0x.read-failed.second-file." + (err_name(r7) if st7 == "err" else st7))
                    elif cons2.data() != want2:
                        bad("C01", "bytes", "a second file read after the first in the same process: got %d bytes, expected %d; first difference at %s" % (
                            len(cons2.data()), len(want2), first_diff(cons2.data(), want2)))
                    else:
                        probe("second-file-read-ok")
            else:
                probe("second-file-upload-" + st6)
        # --- C05: same data again, other client / other grid order / other chunking
        if focus == "C05":
            c3 = g.add_client(k=cfg["k"], happy=cfg["happy"], n=cfg["n"], segsize=cfg["seg"], convergence=conv_secret("A"))
            how2 = g.ch.pick("workload", "how2", ["data", "filehandle", "chunky", "filename", "filehandle-at-end", "filehandle-mid"])
            EncryptAnUploadable.CHUNKSIZE = g.ch.pick("workload", "chunk2", [5, 33, 999, 50 * 1024])
            st4, r4 = run(c3.upload(make_uploadable(how2, data, conv, g.ch, base, "u1")))
            if st4 == "ok":
                cap2 = r4.get_uri()
                if conv is not None and cap2 != cap:
                    bad("C05", "not-convergent", "same plaintext, secret and parameters via %s/%s gave different caps" % (cfg["how"], how2))
                if conv is None:
                    if cap2 == cap:
                        bad("C05", "random-key-repeats", "two uploads without convergence secret produced the same cap")
                    probe("random-key-differs")
            elif not (st4 == "err" and r4.check(UploadUnhappinessError) and not happiness_reachable(cfg)):
                bad("C05", "second-upload-failed", "%s %s" % (st4, err_name(r4) if st4 == "err" else ""))
            # vary one parameter -> storage index must change
            if conv is not None:
                vary = g.ch.pick("workload", "vary", ["secret", "k", "n", "seg"])
                kw = dict(k=cfg["k"], happy=1, n=cfg["n"], segsize=cfg["seg"])
                conv2 = conv
                if vary == "secret":
                    conv2 = conv_secret("Z")
                elif vary == "k":
                    kw["k"] = cfg["k"] + 1 if cfg["k"] < cfg["n"] else max(1, cfg["k"] - 1)
                elif vary == "n":
                    kw["n"] = cfg["n"] + 1
                else:
                    kw["segsize"] = effseg * 2 + cfg["k"] * 3
                changed = (kw["k"], kw["n"]) != (cfg["k"], cfg["n"]) or conv2 != conv or \
                    effective_segsize({"k": kw["k"], "seg": kw["segsize"]}, len(data)) != effseg
                if kw["k"] != cfg["k"] or changed:
                    c4 = g.add_client(convergence=conv_secret("A"), **kw)
                    st5, r5 = run(c4.upload(Data(data, convergence=conv2)))
                    if st5 == "ok" and changed:
                        cd2 = sharecheck.parse_chk_cap(r5.get_uri())
                        probe("vary-" + vary)
                        if refhash.storage_index_from_key(cd2["key"]) == si:
                            bad("C05", "param-not-in-key", "changing %s left the storage index unchanged" % vary)
        return finish(g, viol, probes, case)
    finally:
        g.close()


def effective_segsize(cfg, size):
    """Segment size the uploader really uses: min(max_seg, size) rounded up to a multiple of k."""
    k = cfg["k"]
    seg = min(cfg["seg"], size) if size else cfg["seg"]
    seg = max(seg, 1)
    return ((seg + k - 1) // k) * k


def first_diff(a, b):
    for i in range(min(len(a), len(b))):
        if a[i] != b[i]:
            return i
    return min(len(a), len(b))


def finish(g, viol, probes, case, extra_faults=None):
    fp = hashlib.sha256(repr((sorted(probes.items()), case["cfg"].get("k"), case["cfg"].get("n"), case["cfg"].get("size"),
                              sorted(g.net.fired.items()))).encode()).hexdigest()[:16]
    if R.errors:
        viol.append({"clause": "%s.unhandled-error" % case.get("focus", "C01"), "sig": "%s.unhandled-error.%s" % (
            case.get("focus", "C01"), R.errors[0][1].strip().splitlines()[-1].split(":")[0]),
            "detail": "exception escaped into the reactor:\n" + R.errors[0][1][-1500:]})
    faults = dict(g.net.fired)
    faults.update(extra_faults or {})
    c17 = getattr(g, "c17_monitor", None)
    if c17 is not None:
        c17.check_secrets(None)          # lease secrets of every allocate_buckets / add_lease seen on the wire
        probes["lease-secret-messages-checked"] = probes.get("lease-secret-messages-checked", 0) + c17.checked
    for nm in R.logged_errors:
        probes["logged-error-" + nm] = probes.get("logged-error-" + nm, 0) + 1
    focus = case.get("focus")
    return {"violations": [v for v in viol if focus is None or v["clause"].split(".")[0] in focus_props(focus)][:4],
            "digest": R.digest(), "fingerprint": fp, "nontrivial": bool(probes),
            "events": R.events, "sim_s": R.true_seconds() - EPOCH, "faults": faults, "probes": probes}


def focus_props(focus):
    """Which properties' clauses a check with this focus reports (C46 fault-free hangs ride along with C01/C04)."""
    return {"C01": ("C01",), "C04": ("C04", "C46"), "C05": ("C05",), "C17": ("C17",),
            "C02": ("C02",), "C03": ("C03",), "C46": ("C46",),
            "C06": ("C06",), "C07": ("C07",), "C08": ("C08",)}.get(focus, (focus,))


# ------------------------------------------------------------------------------------------
# profile: layout (C02 never wrong bytes, C03 availability, C46 termination)
# ------------------------------------------------------------------------------------------
@implementer(IUploadable)
class FixedKeyUploadable(object):
    """A real Data uploadable whose encryption key is dictated (to obtain another encoding of the same key)."""
    def __init__(self, inner, key):
        self.inner = inner
        self.key = key

    def __getattr__(self, k):
        return getattr(self.inner, k)

    def get_encryption_key(self):
        return defer.succeed(self.key)


MUT_KINDS = ["flip", "field", "block", "cthash", "bhash", "schain_num", "schain_hash", "ueb_len", "ueb_field",
             "truncate", "swap_file", "swap_enc", "swap_shnum", "delete", "flip_lease_area", "flip_unused", "forge_blocktree"]
UEB_FIELDS = ["size", "segment_size", "num_segments", "needed_shares", "total_shares", "codec_params", "tail_codec_params",
              "crypttext_root_hash", "share_root_hash", "crypttext_hash"]


def gen_layout(seed, tier, focus):
    ch = Chooser(seed)
    n = ch.pick("config", "n", [1, 2, 3, 4, 5, 6, 10])
    k = ch.randint("config", "k", 1, n)
    seg = ch.pick("config", "seg", [k, 2 * k, 3 * k, 16, 56, 64, 100, 1024, 128 * 1024])
    segk = ((max(seg, 1) + k - 1) // k) * k
    size = max(56, ch.pick("config", "size", [56, 57, 100, segk, segk + 1, 2 * segk, 3 * segk - 1, 4 * segk + 1, 7 * segk, 1000, 8000]))
    if segk <= 4 and size > 400:
        size = 400
    if size > 250 * segk:
        size = 250 * segk + 1          # (thousands of tiny segments cost minutes of wall time and add nothing)
    nservers = ch.randint("config", "nservers", 1, n + 3)
    # placement: every share somewhere, some twice, some servers several shares
    placement = []
    style = ch.pick("config", "pstyle", ["spread", "spread", "clump", "dups", "sparse"] + (["tight"] if focus in ("C03", "C46") else []))
    tight_keep = set(ch.sample("config", "tight-keep", range(n), k)) if style == "tight" else None
    for sh in range(n):
        if style == "sparse" and ch.chance("config", ("skip", sh), 0.35):
            continue
        if tight_keep is not None and sh not in tight_keep:
            continue        # exactly k distinct shares exist: every one of them is needed, however late it answers
        if style == "clump":
            srv = ch.randrange("config", ("psrv", sh), max(1, nservers // 2))
        else:
            srv = (sh + ch.randrange("config", ("poff", sh), 2)) % nservers if style == "spread" else ch.randrange("config", ("psrv", sh), nservers)
        placement.append([sh, srv])
        if style == "dups" and ch.chance("config", ("dup", sh), 0.5):
            placement.append([sh, ch.randrange("config", ("psrv2", sh), nservers)])
    if not placement:
        placement.append([0, 0])
    cfg = {"k": k, "n": n, "seg": seg, "size": size, "nservers": nservers, "placement": placement,
           "datapat": ch.randint("config", "datapat", 1, 1 << 30),
           "knobs": gen_knobs(ch), "net": gen_net(ch), "badseg": None}
    faults, muts = [], []
    F = "faults"
    if focus in ("C02",):
        nm = ch.randint(F, "nmut", 1, max(1, len(placement)))
        for j in range(nm):
            sh, srv = ch.pick(F, ("mtarget", j), placement)
            kind = ch.pick(F, ("mkind", j), MUT_KINDS)
            muts.append([srv, sh, kind, ch.randrange(F, ("mp1", j), 1 << 30), ch.randrange(F, ("mp2", j), 1 << 30)])
        if ch.chance(F, "coordinated", 0.3):
            # coordinated substitution: most or all copies replaced in the same way, so that the replaced shares are
            # consistent with one another (complete share set of another file / another encoding, the same forged UEB
            # field or hash-tree node everywhere); a few copies may stay genuine
            kind = ch.pick(F, "co-kind", ["swap_file", "swap_file", "swap_enc", "ueb_field", "cthash", "field", "swap_shnum"])
            p1, p2 = ch.randrange(F, "co-p1", 1 << 30), ch.randrange(F, "co-p2", 1 << 30)
            keep = set(ch.sample(F, "co-keep", range(len(placement)), ch.randint(F, "co-nkeep", 0, max(0, len(placement) - k))))
            muts = muts[:ch.randint(F, "co-others", 0, 2)] + [[srv, sh, kind, p1, p2] for i, (sh, srv) in enumerate(placement) if i not in keep]
        if ch.chance(F, "splice", 0.18):
            # colluding servers: each holds forged copies of the same share numbers (pieces of another file's shares
            # spliced in consistently); the honest servers answer the share query late or not at all, so that the reader
            # works through one forged copy after another of the same share number before (if ever) it sees a genuine one
            ncoll = ch.randint(F, "sp-ncoll", 1, 7)
            nhon = ch.randint(F, "sp-nhonest", 1, 4)
            nf_ = ch.randint(F, "sp-nforged", min(k, n), n)
            mask = ch.pick(F, "sp-mask", [7, 7, 7, 3, 5, 1, 2, 4, 6, 1 | 8, 1 | 8 | 64, 32 | 8, 32 | 8 | 16, 32 | 8 | 16 | 64, 16, 8, 64])
            tgt = ch.randrange(F, "sp-seg", 1 << 20)
            placement = [[sh, ncoll + sh % nhon] for sh in range(n)] + [[sh, c] for c in range(ncoll) for sh in range(nf_)]
            nservers = ncoll + nhon
            cfg["nservers"], cfg["placement"] = nservers, placement
            muts = [[c, sh, "splice", mask, tgt] for c in range(ncoll) for sh in range(nf_)]
            late = ch.pick(F, "sp-late", ["stall", "stall", "down", "none"])
            for h in range(nhon):
                if late == "stall":
                    faults.append(["stall", ncoll + h, "get_buckets", 1, ch.pick(F, ("sp-secs", h), [1.5, 1.5, 12.0, 60.0])])
                elif late == "down" and (h or nhon == 1 or ch.chance(F, ("sp-down", h), 0.7)):
                    faults.append(["error", ncoll + h, "get_buckets", 1, 1.0, True])
        if ch.chance(F, "tamper", 0.35):
            for j in range(ch.randint(F, "ntamper", 1, 3)):
                faults.append(["tamper_read", ch.randrange(F, ("tsrv", j), nservers), ch.randint(F, ("tnth", j), 1, 12), ch.randrange(F, ("tp", j), 1 << 30)])
    if focus in ("C03", "C46"):
        nm = ch.randint(F, "nmut", 0, max(0, len(placement) // 2 + 1))
        for j in range(nm):
            sh, srv = ch.pick(F, ("mtarget", j), placement)
            kind = ch.pick(F, ("mkind", j), ["delete", "flip", "block", "bhash", "truncate", "field", "ueb_field", "schain_hash", "cthash"])
            muts.append([srv, sh, kind, ch.randrange(F, ("mp1", j), 1 << 30), ch.randrange(F, ("mp2", j), 1 << 30)])
        nf = ch.weighted(F, "nfaults", [(0, 2), (1, 4), (2, 3), (3, 2), (4, 1)])
        if style == "tight":
            # with no share to spare only delays are survivable: slow servers, answers after the overdue timer
            nm = 0
            muts = []
        for j in range(nf):
            kind = ch.pick(F, ("fkind", j), ["error", "disconnect_before", "disconnect_after", "stall", "stall", "error"])
            if style == "tight":
                kind = "stall"
            meth = ch.pick(F, ("fmeth", j), ["get_buckets", "read", "read", "read"])
            fl_ = [kind, ch.randrange(F, ("fsrv", j), nservers), meth, ch.randint(F, ("fnth", j), 1, 6),
                   ch.pick(F, ("fsecs", j), [0.5, 5.0, 11.0, 30.0, 300.0])]
            if kind == "error" and ch.chance(F, ("fevery", j), 0.35):
                # a server that goes bad and stays bad (every call from the nth on), possibly only during a later read
                fl_[3] = ch.randint(F, ("fnth-every", j), 1, 14)
                fl_.append(True)
            faults.append(fl_)
        if (focus == "C46" and ch.chance(F, "badseg", 0.5)) or False:
            nseg = (size + segk - 1) // segk
            cfg["badseg"] = ch.randrange(F, "badsegn", nseg)
    if focus == "C02" and ch.chance(F, "badseg", 0.2):
        cfg["badseg"] = ch.randrange(F, "badsegn", (size + segk - 1) // segk)
    ops = []
    nreads = ch.randint("workload", "nreads", 1, 3 if focus != "C46" else 2)
    for i in range(nreads):
        off = ch.pick("workload", ("off", i), [0, 0, 0, 1, segk, segk + 1, size // 2, size - 1, max(0, segk - 1), max(0, 2 * segk - 3), 7, 17, 40, segk // 2, 97])
        sz = ch.pick("workload", ("sz", i), [None, None, 1, segk, size, segk + 2, 2 * segk, 5])
        ops.append(["read", off, sz, ch.pick("workload", ("start", i), [0.0, 0.0, 0.01, 0.5]), False])
    if ch.chance("workload", "guessprobe", 0.12) and segk >= 32:
        # the first read of a fresh node starts beyond the first *guessed* segment while the file's real segments are larger
        # than the reader's guess: the segment number computed from the guess names a real segment further right
        g_ = ch.pick("workload", "guessprobe-g", [16, 16, 96]) if segk > 96 else 16
        cfg["knobs"]["guess_seg"] = g_
        ops[0] = ["read", min(size - 1, ch.pick("workload", "guessprobe-off", [g_, 2 * g_ + 1, 3 * g_ + 5, 5 * g_])), None, 0.0, False]
    if focus == "C03" and ch.chance(F, "late-then-break", 0.12) and n >= k + 1 and nservers >= k + 1:
        # the servers holding the spare shares answer the share query only after the first read has finished (while the node
        # is idle); a server used by the first read then goes bad for good, so a later read needs exactly those spare shares
        placement = [[sh, sh % nservers] for sh in range(n)]
        cfg["placement"] = placement
        muts = []
        fast = ch.sample(F, "ltb-fast", range(min(n, nservers)), k)
        faults = [["stall", srv, "get_buckets", 1, ch.pick(F, ("ltb-secs", srv), [3.0, 12.0, 40.0])] for srv in range(nservers) if srv not in fast]
        faults.append(["error", ch.pick(F, "ltb-victim", fast), "read", ch.randint(F, "ltb-nth", 2, 30), 1.0, True])
        ops = [["read", 0, ch.pick("workload", "ltb-sz", [None, segk, 1]), 0.0, False],
               ["read", ch.pick("workload", "ltb-off2", [0, segk, size // 2]), None, 0.0, True]]
    elif focus == "C03" and ch.chance("workload", "c03-follow", 0.5):
        # later reads through the same node (shares located while the node was idle must not be forgotten)
        for i in range(ch.randint("workload", "c03-nfollow", 1, 2)):
            off = ch.pick("workload", ("c03-foff", i), [0, 0, segk, 2 * segk, size - 1])
            ops.append(["read", min(off, size - 1), ch.pick("workload", ("c03-fsz", i), [None, 1, segk]), 0.0, True])
    if focus == "C46":
        for i in range(ch.randint("workload", "nfollow", 1, 3)):
            off = ch.pick("workload", ("foff", i), [0, 0, segk, 2 * segk, size - 1])
            sz = ch.pick("workload", ("fsz", i), [None, 1, segk])
            ops.append(["read", min(off, size - 1), sz, 0.0, True])
    return {"engine": "immsim", "profile": "layout", "focus": focus, "seed": seed, "cfg": cfg, "ops": ops,
            "faults": faults, "muts": muts}


def mutate_share(raw, kind, p1, p2, ctx):
    """raw: container bytes.  Returns new container bytes or None (delete)."""
    ver, share, nl = sharecheck.split_container(raw)
    head, tail = raw[:12], raw[12 + len(share):]
    sb = bytearray(share)
    try:
        p = sharecheck.parse_share(share)
    except sharecheck.Bad:
        p = None

    def flip_at(i):
        if 0 <= i < len(sb):
            sb[i] ^= (1 + p2 % 255)

    if kind == "delete":
        return None
    if kind == "flip" or p is None:
        flip_at(p1 % max(1, len(sb)))
    elif kind == "flip_lease_area":
        t = bytearray(tail)
        if t:
            t[p1 % len(t)] ^= (1 + p2 % 255)
        return head + bytes(sb) + bytes(t)
    elif kind == "flip_unused":
        o = p["offsets"]
        if o["crypttext_hash_tree"] > o["plaintext_hash_tree"]:
            flip_at(o["plaintext_hash_tree"] + p1 % (o["crypttext_hash_tree"] - o["plaintext_hash_tree"]))
    elif kind == "field":
        idx = p1 % 9
        fs = p["fieldsize"]
        pos = 4 + (idx - 1) * fs if idx else 0
        width = fs if idx else 4
        cur = int.from_bytes(sb[pos:pos + width], "big")
        new = [0, cur + 1, max(0, cur - 1), (1 << (8 * width)) - 1, cur ^ (1 << (p2 % (8 * width))), len(sb), cur + 32][p2 % 7]
        sb[pos:pos + width] = (new % (1 << (8 * width))).to_bytes(width, "big")
    elif kind == "block":
        o = p["offsets"]
        ln = o["plaintext_hash_tree"] - o["data"]
        if ln:
            flip_at(o["data"] + p1 % ln)
    elif kind == "forge_blocktree":
        # adversary who knows the layout: alter one block and rebuild a self-consistent block hash tree,
        # leaving the (genuine) share hash chain and UEB alone
        o = p["offsets"]
        try:
            ueb = sharecheck.unpack_ueb(p["ueb"])
            nseg_, bs_, sl_ = sharecheck.seg_geometry(ueb["size"], ueb["segment_size"], ueb["needed_shares"])
        except Exception:
            nseg_ = 0
        if nseg_:
            tgt = p1 % nseg_
            blocks, off = [], o["data"]
            for i in range(nseg_):
                b = bytearray(sb[off:off + bs_[i]])
                if i == tgt and b:
                    b[p2 % len(b)] ^= 0x5a
                    sb[off:off + bs_[i]] = b
                blocks.append(bytes(b))
                off += bs_[i]
            tree = refhash.merkle_tree([refhash.block_hash(b) for b in blocks])
            flat = b"".join(tree)
            if len(flat) == o["share_hashes"] - o["block_hashes"]:
                sb[o["block_hashes"]:o["share_hashes"]] = flat
    elif kind in ("cthash", "bhash"):
        o = p["offsets"]
        a, b = (o["crypttext_hash_tree"], o["block_hashes"]) if kind == "cthash" else (o["block_hashes"], o["share_hashes"])
        if b > a:
            flip_at(a + p1 % (b - a))
    elif kind in ("schain_num", "schain_hash"):
        o = p["offsets"]
        a, b = o["share_hashes"], o["uri_extension"]
        nent = (b - a) // 34
        if nent:
            e = a + 34 * (p1 % nent)
            flip_at(e + (p2 % 2 if kind == "schain_num" else 2 + p2 % 32))
    elif kind == "ueb_len":
        o = p["offsets"]
        fs = p["fieldsize"]
        cur = int.from_bytes(sb[o["uri_extension"]:o["uri_extension"] + fs], "big")
        new = [0, cur + 1, max(0, cur - 1), cur * 2, (1 << (8 * fs)) - 1][p2 % 5]
        sb[o["uri_extension"]:o["uri_extension"] + fs] = new.to_bytes(fs, "big")
    elif kind == "ueb_field":
        try:
            d = sharecheck.unpack_ueb(p["ueb"])
        except Exception:
            d = None
        if d:
            f = UEB_FIELDS[p1 % len(UEB_FIELDS)]
            if f in d:
                if isinstance(d[f], int):
                    d[f] = [d[f] + 1, max(0, d[f] - 1), d[f] * 2, 0][p2 % 4]
                elif len(d[f]) == 32:
                    d[f] = hashlib.sha256(d[f] + b"forged").digest()
                else:
                    d[f] = d[f] + b"1"
                new = sharecheck.pack_ueb(d)
                o = p["offsets"]
                fs = p["fieldsize"]
                del sb[o["uri_extension"]:]
                sb += len(new).to_bytes(fs, "big") + new
    elif kind == "truncate":
        o = p["offsets"]
        pts = sorted(set([0, 3, 4, p["header_size"] - 1, p["header_size"]] + [v + dlt for v in o.values() for dlt in (-1, 0, 1)] + [len(sb) - 1, p1 % max(1, len(sb))]))
        pts = [x for x in pts if 0 <= x < len(sb)]
        del sb[pts[p2 % len(pts)]:]
    elif kind == "splice":
        # an adversary who holds the same-numbered share of ANOTHER file with the same key, size and encoding: chosen
        # pieces of that share replace the genuine ones, so that the forged pieces agree with one another (forged block
        # <-> forged block-hash leaf <-> forged ciphertext-hash leaf ...) while the roots in the UEB stay genuine.
        # p1 = bit mask of pieces, p2 = target segment
        other = ctx.get("splice")
        if other is not None:
            try:
                q = sharecheck.parse_share(sharecheck.split_container(other)[1])
                ueb = sharecheck.unpack_ueb(p["ueb"])
                nseg_, bs_, sl_ = sharecheck.seg_geometry(ueb["size"], ueb["segment_size"], ueb["needed_shares"])
            except Exception:
                q, nseg_ = None, 0
            ob = sharecheck.split_container(other)[1] if q else b""
            if q and nseg_ and q["offsets"] == p["offsets"] and len(ob) >= len(sb) - 64:
                o = p["offsets"]
                tgt = p2 % nseg_

                def take(a, b):
                    if 0 <= a < b <= min(len(sb), len(ob)):
                        sb[a:b] = ob[a:b]

                def leaf(region_start, region_end, i):
                    nodes = (region_end - region_start) // 32
                    first = (nodes + 1) // 2 - 1
                    a = region_start + 32 * (first + i)
                    take(a, a + 32)
                if p1 & 1:
                    a = o["data"] + sum(bs_[:tgt])
                    take(a, a + bs_[tgt])
                if p1 & 2:
                    leaf(o["block_hashes"], o["share_hashes"], tgt)
                if p1 & 4:
                    leaf(o["crypttext_hash_tree"], o["block_hashes"], tgt)
                if p1 & 8:
                    take(o["block_hashes"], o["share_hashes"])
                if p1 & 16:
                    take(o["crypttext_hash_tree"], o["block_hashes"])
                if p1 & 32:
                    take(o["data"], o["plaintext_hash_tree"])
                if p1 & 64:
                    take(o["share_hashes"], o["uri_extension"])
    elif kind in ("swap_file", "swap_enc", "swap_shnum"):
        other = ctx.get(kind)
        if other is not None:
            return other
    return head + bytes(sb) + tail


def exec_layout(case):
    from sim.runner import child_tmp
    cfg = case["cfg"]
    focus = case["focus"]
    base = tempfile.mkdtemp(dir=child_tmp())
    R.reset_sim()
    apply_knobs(cfg["knobs"])
    viol, probes = [], {}

    def probe(nm, c=1):
        probes[nm] = probes.get(nm, 0) + c

    def bad(prop, clause, detail, sig=None):
        viol.append({"clause": "%s.%s" % (prop, clause), "sig": sig or "%s.%s" % (prop, clause), "detail": detail})

    k, n = cfg["k"], cfg["n"]
    g = Grid(case["seed"], base, {"lat_profile": "fifo", "base_lat": 0.001})
    try:
        # --- origin: upload on a scratch set of n servers, one share each, then harvest the share files
        for i in range(max(n, cfg["nservers"])):
            g.add_server()
        up = g.add_client(k=k, happy=1, n=n, segsize=cfg["seg"], convergence=conv_secret("A"))
        data = plaintext_of(case)
        st, res = run(up.upload(Data(data, convergence=conv_secret("A"))))
        if st != "ok":
            return finish(g, [{"clause": focus + ".setup", "sig": focus + ".setup", "detail": "origin upload failed: %r" % (res,)}], probes, case)
        cap = res.get_uri()
        capd = sharecheck.parse_chk_cap(cap)
        si = refhash.storage_index_from_key(capd["key"])
        originals = {}
        for s in g.servers:
            for shnum, raw in s.shares_of(si).items():
                originals[shnum] = raw
                os.unlink(s.share_path(si, shnum))
        ctx_by_sh = {}
        if any(m[2] == "swap_file" for m in case.get("muts", [])):
            dataB = pat_bytes(cfg["datapat"] + 1, cfg["size"])
            stB, resB = run(up.upload(Data(dataB, convergence=conv_secret("A"))))
            if stB == "ok":
                siB = refhash.storage_index_from_key(sharecheck.parse_chk_cap(resB.get_uri())["key"])
                for s in g.servers:
                    for shnum, raw in s.shares_of(siB).items():
                        ctx_by_sh.setdefault(shnum, {})["swap_file"] = raw
        if any(m[2] == "splice" for m in case.get("muts", [])):
            dataS = pat_bytes(cfg["datapat"] + 2, cfg["size"])
            stS, resS = run(up.upload(FixedKeyUploadable(Data(dataS, convergence=None), capd["key"])))
            if stS == "ok":
                for s in g.servers:
                    for shnum, raw in s.shares_of(si).items():
                        ctx_by_sh.setdefault(shnum, {})["splice"] = raw
                        os.unlink(s.share_path(si, shnum))
        if any(m[2] == "swap_enc" for m in case.get("muts", [])):
            up2 = g.add_client(k=k, happy=1, n=n, segsize=max(k, cfg["seg"] // 2 if cfg["seg"] > 2 * k else cfg["seg"] * 3), convergence=conv_secret("A"))
            stE, resE = run(up2.upload(FixedKeyUploadable(Data(data, convergence=None), capd["key"])))
            if stE == "ok":
                for s in g.servers:
                    for shnum, raw in s.shares_of(si).items():
                        ctx_by_sh.setdefault(shnum, {})["swap_enc"] = raw
                        os.unlink(s.share_path(si, shnum))
        for shnum in originals:
            ctx_by_sh.setdefault(shnum, {})["swap_shnum"] = originals[(shnum + 1) % n] if (shnum + 1) % n in originals else None
        # --- C46: an inconsistent-but-self-consistent file (bad crypttext leaf for one segment in every share)
        if cfg.get("badseg") is not None:
            originals, cap, capd = forge_bad_ciphertext_leaf(originals, capd, cfg["badseg"])
            probe("forged-ciphertext-leaf")
        # --- place
        servers = g.servers[:cfg["nservers"]]
        for s in g.servers[cfg["nservers"]:]:
            pass
        for (shnum, srv) in cfg["placement"]:
            if shnum in originals:
                p = servers[srv].share_path(si, shnum)
                os.makedirs(os.path.dirname(p), exist_ok=True)
                with open(p, "wb") as f:
                    f.write(originals[shnum])
        for (srv, shnum, kind, p1, p2) in case.get("muts", []):
            if srv >= len(servers):
                continue
            p = servers[srv].share_path(si, shnum)
            if not os.path.exists(p):
                continue
            with open(p, "rb") as f:
                raw = f.read()
            try:
                new = mutate_share(raw, kind, p1, p2, ctx_by_sh.get(shnum, {}))
            except sharecheck.Bad:
                new = raw[:12] + bytes(x ^ 0x55 for x in raw[12:40]) + raw[40:]
            if new is None:
                os.unlink(p)
                probe("mut-delete")
            else:
                with open(p, "wb") as f:
                    f.write(new)
                probe("mut-" + kind)
        # --- reader grid view: a fresh client connected only to the first nservers servers
        g.net.profile = cfg["net"]["lat_profile"]
        g.net.jitter = cfg["net"]["jitter"]
        g.net.batch = cfg["net"].get("batch", 0) or 0
        g.set_threads(cfg["net"].get("threads"))
        rd = g.add_client(k=3, happy=1, n=10, connect=False)
        for s in servers:
            g.connect(rd, s)
        faulted = set()
        for fl in case.get("faults", []):
            if fl[0] == "tamper_read":
                _, srv, nth, tp = fl
                if srv < len(servers):
                    install_read_tamper(g, servers[srv].name, nth, tp, probe)
                    faulted.add(servers[srv].name)
                continue
            kind, srv, meth, nth, secs = fl[:5]
            if srv >= len(servers):
                continue
            g.net.add_fault({"kind": kind, "callee": servers[srv].name, "caller": rd.sim_name, "method": meth, "nth": nth, "secs": secs,
                             "every": bool(len(fl) > 5 and fl[5])})
            if kind != "stall":
                # a stall ends: that server "answers late" and still counts as answering (C03)
                faulted.add(servers[srv].name)
        # ground truth before the reads
        valid_where, pieces = sharecheck.good_shares_on_disk(servers, si, capd)
        # C03 speaks of *intact* shares: what the server serves for the share is byte-identical to what the uploader
        # stored (container header / lease area may differ) and validates.  A modified share that an independent
        # validator would still accept (e.g. a flipped, unneeded entry of the share hash chain) is one of the "other"
        # shares: the reader may reject it.
        intact_where = {}
        for s in servers:
            for shnum, raw in s.shares_of(si).items():
                try:
                    if (shnum in originals and s.name in valid_where.get(shnum, ())
                            and sharecheck.split_container(raw)[1] == sharecheck.split_container(originals[shnum])[1]):
                        intact_where.setdefault(shnum, set()).add(s.name)
                except sharecheck.Bad:
                    pass
        good_unfaulted = set(sh for sh, srvs in intact_where.items() if any(s not in faulted for s in srvs))
        if set(valid_where) - set(intact_where):
            probe("modified-share-still-validates-independently")
        good_anywhere = set(valid_where)
        # conservative over-estimate of "could contribute to this read": the share file exists and the
        # blocks of the wanted segments sit, intact, where the original share had them
        def blocks_intact(segs):
            out = set()
            for s in servers:
                for shnum, raw in s.shares_of(si).items():
                    if shnum not in originals:
                        continue
                    try:
                        _v, osh, _n = sharecheck.split_container(originals[shnum])
                        po = sharecheck.parse_share(osh)
                        _v2, msh, _n2 = sharecheck.split_container(raw)
                    except (sharecheck.Bad, Exception):
                        continue
                    nseg_, bs_, sl_ = sharecheck.seg_geometry(capd["size"], sharecheck.unpack_ueb(po["ueb"])["segment_size"], k)
                    ok, off = True, po["offsets"]["data"]
                    for sg in range(nseg_):
                        if sg in segs and msh[off:off + bs_[sg]] != osh[off:off + bs_[sg]]:
                            ok = False
                        off += bs_[sg]
                    if ok:
                        out.add(shnum)
            return out
        expect_plain = data
        badseg = cfg.get("badseg")
        node = rd.create_node_from_uri(cap)
        first_wave = [op for op in case["ops"] if not op[4]]
        follow = [op for op in case["ops"] if op[4]]

        def launch(ops, tag):
            pend = []
            for i, op in enumerate(ops):
                _, off, sz, start, _f = op
                cons = CheckingConsumer("%s%d" % (tag, i), expect_plain, off)
                box = {}

                def go(cons=cons, off=off, sz=sz, box=box):
                    d = node.read(cons, off, sz)
                    d.addCallbacks(lambda r: box.setdefault("r", ("ok", r)), lambda f: box.setdefault("r", ("err", f)))
                if start:
                    dc = R.callLater(start, go)
                    dc.sim_label = "start-read-%s%d" % (tag, i)
                else:
                    go()
                pend.append((op, cons, box))
            return pend

        def judge(pend, wave):
            for (op, cons, box) in pend:
                _, off, sz, start, _f = op
                want = expect_plain[off:] if sz is None else expect_plain[off:off + sz]
                segk_ = effective_segsize(cfg, cfg["size"])
                touches_bad = badseg is not None and want and not (off + len(want) <= badseg * segk_ or off >= (badseg + 1) * segk_)
                if cons.wrong is not None:
                    bad("C02", "wrong-bytes", "read(%r,%r) delivered a byte that differs from the plaintext at file offset %d (muts=%r faults=%r)" % (
                        off, sz, cons.wrong, case.get("muts"), case.get("faults")))
                if "r" not in box:
                    bad("C46", "read-hung", "%s read(%r,%r) never completed although the event queue drained (muts=%r faults=%r badseg=%r)" % (
                        wave, off, sz, case.get("muts"), case.get("faults"), badseg),
                        sig="C46.read-hung.%s%s" % (wave, ".after-bad-ciphertext" if badseg is not None else ""))
                    continue
                st, r = box["r"]
                got = cons.data()
                if st == "ok":
                    probe("read-ok")
                    if got != want and cons.wrong is None:
                        bad("C02", "short-or-long", "read(%r,%r) completed successfully with %d bytes, expected %d" % (off, sz, len(got), len(want)))
                    if touches_bad:
                        bad("C02", "bad-ciphertext-accepted", "a segment whose ciphertext hash leaf is wrong was delivered as valid")
                    if want:
                        # the downloader may use a different set of k shares for every segment
                        for sg_ in range(off // segk_, (off + len(want) - 1) // segk_ + 1):
                            usable = blocks_intact({sg_})
                            if len(usable) < k:
                                bad("C03", "success-without-k", "read(%r,%r) succeeded although only %d distinct share numbers have an intact block for segment %d (k=%d)" % (
                                    off, sz, len(usable), sg_, k))
                                break
                else:
                    probe("read-err-" + err_name(r))
                    if not want.startswith(got) and cons.wrong is None:
                        bad("C02", "prefix", "bytes delivered before the error are not a prefix of the range")
                    if touches_bad:
                        continue
                    if len(good_unfaulted) >= k and (wave == "first" or focus == "C03"):
                        bad("C03", "unavailable", "read(%r,%r) failed with %s although %d distinct intact shares (k=%d) sit on servers that received no fault (muts=%r faults=%r placement=%r)" % (
                            off, sz, err_name(r), len(good_unfaulted), k, case.get("muts"), case.get("faults"), cfg["placement"]),
                            sig="C03.unavailable." + err_name(r))
                    segs = set(range(off // segk_, (off + max(1, len(want)) - 1) // segk_ + 1))
                    if len(blocks_intact(segs)) < k and not r.check(NotEnoughSharesError, NoSharesError):
                        bad("C03", "wrong-error", "fewer than k good shares reachable but the read failed with %s, not a not-enough-shares error" % err_name(r),
                            sig="C03.wrong-error." + err_name(r))
                    if wave == "follow-up":
                        # faults are over: connected servers answer normally now
                        up_names = set(s.name for s in servers if g.net.conn(rd.sim_name, s.name).up)
                        good_now = set(sh for sh, srvs in valid_where.items() if srvs & up_names)
                        if len(good_now) >= k:
                            # completes with an error: allowed by C46 ("completes, delivering its data or an error");
                            # the node remembers shares it gave up on.  Counted, not alarmed.
                            probe("followup-degraded-" + err_name(r))

        pend = launch(first_wave, "r")
        try:
            settle(150_000)
        except EventCap:
            probe("livelock")
            top = {}
            for ev in g.net.log[-2000:]:
                if ev.get("ev") == "call":
                    kx = (ev["callee"], ev["method"])
                    top[kx] = top.get(kx, 0) + 1
            bad("C46", "livelock", "the read never quiesces: 150000 events and still sending requests (most frequent recent calls %r; muts=%r faults=%r)" % (
                sorted(top.items(), key=lambda kv: -kv[1])[:3], case.get("muts"), case.get("faults")), sig="C46.livelock")
            return finish(g, viol, probes, case)
        judge(pend, "first")
        if follow:
            pend2 = launch(follow, "f")
            try:
                settle(150_000)
            except EventCap:
                bad("C46", "livelock", "follow-up read never quiesces", sig="C46.livelock.follow-up")
                return finish(g, viol, probes, case)
            judge(pend2, "follow-up")
        probe("good-unfaulted>=k" if len(good_unfaulted) >= k else "good-unfaulted<k")
        return finish(g, viol, probes, case)
    finally:
        g.close()


@implementer(IConsumer)
class CheckingConsumer(object):
    """Checks every write against the plaintext at its position (prefix property, C02)."""
    def __init__(self, name, plaintext, offset):
        self.name = name
        self.plain = plaintext
        self.pos = offset
        self.chunks = []
        self.wrong = None
        self.producer = None

    def registerProducer(self, p, streaming):
        self.producer = p
        if not streaming:
            n = 0
            while self.producer is p and n < 100000:
                p.resumeProducing()
                n += 1

    def unregisterProducer(self):
        self.producer = None

    def write(self, data):
        data = bytes(data)
        want = self.plain[self.pos:self.pos + len(data)]
        if data != want and self.wrong is None:
            self.wrong = self.pos + first_diff(data, want)
        self.pos += len(data)
        self.chunks.append(data)

    def data(self):
        return b"".join(self.chunks)


def install_read_tamper(g, server_name, nth, tp, probe):
    """The nth bucket read answered by this server has one byte flipped (answers that change between reads)."""
    state = {"n": 0}

    def tf(label, res):
        state["n"] += 1
        if state["n"] == nth and isinstance(res, bytes) and res:
            b = bytearray(res)
            b[tp % len(b)] ^= 0x40
            g.net.count("tamper_read")
            return bytes(b)
        return res
    g.net.tamper[(server_name, "read")] = tf


def forge_bad_ciphertext_leaf(originals, capd, segnum):
    """Replace one leaf of the crypttext hash tree (and its path to the root) in every share, put the
    new root into the UEB and derive the matching cap: all share/block checks pass, decoding succeeds,
    the ciphertext hash check fails for exactly that segment (the 'uploader built a bad UEB' case)."""
    new = {}
    new_ueb_hash = None
    for shnum, raw in originals.items():
        ver, share, nl = sharecheck.split_container(raw)
        p = sharecheck.parse_share(share)
        ct = [p["crypttext_tree"][i:i + 32] for i in range(0, len(p["crypttext_tree"]), 32)]
        nleaves = (len(ct) + 1) // 2
        node = (nleaves - 1) + segnum
        ct[node] = hashlib.sha256(b"forged-leaf" + ct[node]).digest()
        while node > 0:
            parent = (node - 1) // 2
            ct[parent] = refhash.pair_hash(ct[2 * parent + 1], ct[2 * parent + 2])
            node = parent
        d = sharecheck.unpack_ueb(p["ueb"])
        d["crypttext_root_hash"] = ct[0]
        ueb = sharecheck.pack_ueb(d)
        new_ueb_hash = refhash.ueb_hash(ueb)
        o = p["offsets"]
        sb = bytearray(share)
        sb[o["crypttext_hash_tree"]:o["block_hashes"]] = b"".join(ct)
        del sb[o["uri_extension"]:]
        sb += len(ueb).to_bytes(p["fieldsize"], "big") + ueb
        new[shnum] = raw[:12] + bytes(sb) + raw[12 + len(share):]
    capd = dict(capd)
    capd["ueb_hash"] = new_ueb_hash
    import base64
    def b2a(b):
        return base64.b32encode(b).decode().rstrip("=").lower().encode()
    cap = b"URI:CHK:%s:%s:%d:%d:%d" % (b2a(capd["key"]), b2a(new_ueb_hash), capd["k"], capd["n"], capd["size"])
    return new, cap, capd


# ------------------------------------------------------------------------------------------
# profile: upfault (C06 successful upload meets happiness, C07/C08 seam monitors)
# ------------------------------------------------------------------------------------------
from allmydata.immutable import happiness_upload as hu_mod      # noqa: E402
from allmydata.util import happinessutil as hutil_mod           # noqa: E402
from allmydata.immutable import encode as encode_mod            # noqa: E402


def gen_upfault(seed, tier, focus):
    ch = Chooser(seed)
    n = ch.pick("config", "n", [1, 2, 3, 4, 5, 6, 10])
    k = ch.randint("config", "k", 1, n)
    happy = ch.randint("config", "happy", 1, n)
    seg = ch.pick("config", "seg", [k, 3 * k, 64, 1024, 128 * 1024])
    segk = ((seg + k - 1) // k) * k
    size = max(56, ch.pick("config", "size", [56, 100, segk + 1, 3 * segk, 2000]))
    if segk <= 4 and size > 300:
        size = 300
    nservers = ch.randint("config", "nservers", 1, 12)
    servers = []
    for i in range(nservers):
        kind = ch.weighted("config", ("skind", i), [("rw", 6), ("ro", 1.5), ("full", 1.0), ("slow", 1.0)])
        servers.append(kind)
    if focus == "C07" and nservers >= 3:
        # adversarial layouts for the read-only phase: several read-only servers with overlapping holdings
        for i in ch.sample("config", "roset", range(nservers), min(nservers - 1, ch.randint("config", "nro", 1, 3))):
            servers[i] = "ro"
    pre = []
    npre = ch.weighted("config", "npre", [(0, 3), (1, 2), (2, 2), (4, 2), (n, 1)])
    for j in range(min(npre, 2 * n)):
        pre.append([ch.randrange("config", ("presh", j), n), ch.randrange("config", ("presrv", j), nservers)])
    if focus in ("C06", "C08") and ch.chance("config", "hoard", 0.3):
        # one server already holds (nearly) every share, e.g. from an upload made while it was the only server:
        # share numbers then have several holders once new servers receive copies, and happiness (a matching) can
        # drop when a server is lost although no share number disappears
        hs = ch.randrange("config", "hoard-srv", nservers)
        for shn in range(n):
            if ch.chance("config", ("hoard-sh", shn), 0.85):
                pre.append([shn, hs])
    if focus == "C07":
        ros = [i for i, kd in enumerate(servers) if kd in ("ro", "full")]
        for j, i in enumerate(ros):
            for t in range(ch.randint("config", ("rohold", j), 0, 2)):
                pre.append([ch.randrange("config", ("rosh", j, t), min(n, 3)), i])
    faults = []
    if focus == "C06":
        nf = ch.weighted("faults", "nfaults", [(0, 2), (1, 4), (2, 3), (3, 2)])
        for j in range(nf):
            kind = ch.pick("faults", ("fkind", j), ["error", "disconnect_before", "disconnect_after", "stall", "error"])
            meth = ch.pick("faults", ("fmeth", j), ["allocate_buckets", "write", "write", "close", "get_buckets"])
            faults.append([kind, ch.randrange("faults", ("fsrv", j), nservers), meth, ch.randint("faults", ("fnth", j), 1, 4),
                           ch.pick("faults", ("fsecs", j), [1.0, 16.0, 40.0])])
    cfg = {"k": k, "happy": happy, "n": n, "seg": seg, "size": size, "servers": servers, "pre": pre,
           "datapat": ch.randint("config", "datapat", 1, 1 << 30), "knobs": gen_knobs(ch), "net": gen_net(ch)}
    return {"engine": "immsim", "profile": "upfault", "focus": focus, "seed": seed, "cfg": cfg, "ops": [["upload"]], "faults": faults}


class SeamMonitor(object):
    """Wraps share_placement (as imported into upload.py) and servers_of_happiness (as imported
    into upload.py / used via happinessutil in encode.py) and checks every real call (C07, C08)."""
    def __init__(self, viol, probes, ch):
        self.viol, self.probes, self.ch = viol, probes, ch
        self.orig_sp = upload_mod.share_placement
        self.orig_soh_up = upload_mod.servers_of_happiness
        self.orig_soh_util = hutil_mod.servers_of_happiness
        upload_mod.share_placement = self.share_placement
        upload_mod.servers_of_happiness = self.soh
        hutil_mod.servers_of_happiness = self.soh
        self.nsp = self.nsoh = 0

    def close(self):
        upload_mod.share_placement = self.orig_sp
        upload_mod.servers_of_happiness = self.orig_soh_up
        hutil_mod.servers_of_happiness = self.orig_soh_util

    def bad(self, prop, clause, detail, sig=None):
        self.viol.append({"clause": "%s.%s" % (prop, clause), "sig": sig or "%s.%s" % (prop, clause), "detail": detail})

    def share_placement(self, peers, readonly_peers, shares, peers_to_shares):
        p_in = (set(peers), set(readonly_peers), set(shares), {k: set(v) for k, v in peers_to_shares.items()})
        res = self.orig_sp(peers, readonly_peers, shares, peers_to_shares)
        self.nsp += 1
        self.probes["share_placement-calls"] = self.probes.get("share_placement-calls", 0) + 1
        peers, ro, shares, existing = p_in
        if not peers:
            return res
        desc = "peers=%r readonly=%r shares=%r existing=%r -> %r" % (
            sorted(map(_nm, peers)), sorted(map(_nm, ro)), sorted(shares),
            {_nm(k): sorted(v) for k, v in existing.items()}, {s: _nm(p) for s, p in res.items()})
        missing = [s for s in shares if res.get(s) is None]
        if missing:
            self.bad("C07", "share-unassigned", "shares %r got no server: %s" % (missing, desc))
        if ro:
            self.probes["share_placement-with-readonly"] = self.probes.get("share_placement-with-readonly", 0) + 1
        for s, p in res.items():
            if p in ro and s not in existing.get(p, ()):
                self.bad("C07", "readonly-gets-new-share", "read-only server %s is assigned share %d which it does not hold: %s" % (_nm(p), s, desc))
                break
            if p is not None and p not in ro and p not in peers:
                self.bad("C07", "unknown-server", "share %d assigned to a server outside the candidate sets: %s" % (s, desc))
        used = len(set(p for p in res.values() if p is not None))
        best = matching.best_placement_spread(shares, peers, ro, existing)
        if used < best and not any(v["clause"].startswith("C07.readonly") for v in self.viol):
            self.bad("C07", "not-maximal", "placement uses %d distinct servers, %d are achievable: %s" % (used, best, desc))
        return res

    def soh(self, sharemap):
        snap = {k: set(v) for k, v in sharemap.items()}
        res = self.orig_soh_util(sharemap)
        self.nsoh += 1
        self.probes["servers_of_happiness-calls"] = self.probes.get("servers_of_happiness-calls", 0) + 1
        want = matching.happiness(snap)
        if res != want:
            self.bad("C08", "not-max-matching", "servers_of_happiness(%r) = %r, maximum matching = %d" % (
                {k: sorted(map(_nm, v)) for k, v in snap.items()}, res, want))
        # iteration-order independence: rebuild the mapping in other insertion orders
        items = list(snap.items())
        for t in range(2):
            order = self.ch.shuffle("sched", ("soh-order", self.nsoh, t), range(len(items)))
            m2 = {}
            for i in order:
                kk, vv = items[i]
                m2[kk] = set(self.ch.shuffle("sched", ("soh-set", self.nsoh, t, i), sorted(vv, key=repr)))
            r2 = self.orig_soh_util(m2)
            if r2 != res:
                self.bad("C08", "order-dependent", "servers_of_happiness gives %r and %r for the same relation in different insertion orders: %r" % (
                    res, r2, {k: sorted(map(_nm, v)) for k, v in snap.items()}))
                break
        # neighbouring relations: the same servers and shares with a few holdings added or dropped (what one more lost
        # server, one more pre-existing copy or one more answer would have produced), again in a seeded insertion order
        servers = sorted(set(x for v in snap.values() for x in v), key=repr)
        shares = sorted(snap)
        if servers and shares and not any(v["clause"].startswith("C08") for v in self.viol):
            for t in range(3):
                m3 = {kk: set(vv) for kk, vv in snap.items()}
                for e in range(1 + self.ch.randrange("sched", ("soh-nb-n", self.nsoh, t), 4)):
                    sh = self.ch.pick("sched", ("soh-nb-sh", self.nsoh, t, e), shares + [max(shares) + 1])
                    sv = self.ch.pick("sched", ("soh-nb-sv", self.nsoh, t, e), servers)
                    if self.ch.chance("sched", ("soh-nb-add", self.nsoh, t, e), 0.65):
                        m3.setdefault(sh, set()).add(sv)
                    elif sh in m3:
                        m3[sh].discard(sv)
                        if not m3[sh]:
                            del m3[sh]
                order = self.ch.shuffle("sched", ("soh-nb-order", self.nsoh, t), sorted(m3))
                m4 = {kk: set(self.ch.shuffle("sched", ("soh-nb-set", self.nsoh, t, kk), sorted(m3[kk], key=repr))) for kk in order}
                got = self.orig_soh_util(m4)
                want3 = matching.happiness({kk: set(vv) for kk, vv in m3.items()})
                self.probes["servers_of_happiness-neighbour-relations"] = self.probes.get("servers_of_happiness-neighbour-relations", 0) + 1
                if got != want3:
                    self.bad("C08", "not-max-matching", "servers_of_happiness(%r) = %r, maximum matching = %d (a neighbour of a relation the upload produced)" % (
                        {k: sorted(map(_nm, v)) for k, v in m3.items()}, got, want3))
                    break
        return res


def _nm(x):
    if isinstance(x, bytes):
        return x[-6:].decode("ascii", "replace")
    return repr(x)


def exec_upfault(case):
    from sim.runner import child_tmp
    from sim.reactor import EventCap
    cfg = case["cfg"]
    focus = case["focus"]
    base = tempfile.mkdtemp(dir=child_tmp())
    R.reset_sim()
    apply_knobs(cfg["knobs"])
    viol, probes = [], {}

    def probe(nm, c=1):
        probes[nm] = probes.get(nm, 0) + c

    def bad(prop, clause, detail, sig=None):
        viol.append({"clause": "%s.%s" % (prop, clause), "sig": sig or "%s.%s" % (prop, clause), "detail": detail})

    k, n, happy = cfg["k"], cfg["n"], cfg["happy"]
    data = plaintext_of(case)
    # --- scratch grid: learn the cap / SI and obtain valid share files to pre-place
    g0 = Grid(case["seed"] + 1, os.path.join(base, "scratch"), {"lat_profile": "fifo"})
    os.makedirs(g0.basedir, exist_ok=True)
    try:
        for i in range(n):
            g0.add_server()
        c0 = g0.add_client(k=k, happy=1, n=n, segsize=cfg["seg"], convergence=conv_secret("A"))
        st, res = run(c0.upload(Data(data, convergence=conv_secret("A"))))
        if st != "ok":
            return {"violations": [], "digest": R.digest(), "fingerprint": "setup", "nontrivial": False, "events": R.events,
                    "sim_s": 0.0, "faults": {}, "probes": {"setup-failed": 1}}
        cap = res.get_uri()
        capd = sharecheck.parse_chk_cap(cap)
        si = refhash.storage_index_from_key(capd["key"])
        originals = {}
        for s in g0.servers:
            originals.update(s.shares_of(si))
    finally:
        g0.close()
    share_alloc = len(sharecheck.split_container(originals[0])[1])
    R.reset_sim()
    g = Grid(case["seed"], os.path.join(base, "grid"), cfg["net"])
    if focus == "C17":
        g.c17_monitor = Monitors(g, viol)
    os.makedirs(g.basedir, exist_ok=True)
    mon = SeamMonitor(viol, probes, g.ch)
    try:
        for i, kind in enumerate(cfg["servers"]):
            if kind == "ro":
                g.add_server(readonly=True)
            elif kind == "full":
                g.add_server(capacity=0)
            else:
                g.add_server()
            if kind == "slow":
                g.net.slow["s%d" % i] = 40.0
        for (shnum, srv) in cfg["pre"]:
            if shnum in originals and srv < len(g.servers):
                p = g.servers[srv].share_path(si, shnum)
                os.makedirs(os.path.dirname(p), exist_ok=True)
                with open(p, "wb") as f:
                    f.write(originals[shnum])
                probe("preexisting-share")
        c = g.add_client(k=k, happy=happy, n=n, segsize=cfg["seg"], convergence=conv_secret("A"))
        for fl in case.get("faults", []):
            kind, srv, meth, nth, secs = fl
            if srv < len(g.servers):
                g.net.add_fault({"kind": kind, "callee": g.servers[srv].name, "method": meth, "nth": nth, "secs": secs})
        d = c.upload(Data(data, convergence=conv_secret("A")))
        box = []
        d.addCallbacks(lambda r: box.append(("ok", r)), lambda f: box.append(("err", f)))
        try:
            settle(200_000)
        except EventCap:
            bad("C06", "livelock", "upload never quiesces")
            return finish(g, viol, probes, case)
        if not box:
            bad("C06", "upload-hung", "upload Deferred never fired although the event queue drained (faults=%r servers=%r)" % (case.get("faults"), cfg["servers"]))
            return finish(g, viol, probes, case)
        st, res = box[0]
        # ground truth
        valid_where, pieces = sharecheck.good_shares_on_disk(g.servers, si, capd)
        by_name = {s.name: s for s in g.servers}
        sid2name = {s.serverid: s.name for s in g.servers}
        disk_map = {sh: set(srvs) for sh, srvs in valid_where.items()}
        disk_happy = matching.happiness(disk_map)
        faultfree = not case.get("faults")
        # independent reachability (fault-free only): writable = rw/slow servers (unlimited), read-only = ro/full
        # 'slow' servers may legitimately exceed the selector's 15 s time-out and be demoted to read-only,
        # so the lower bound on what is reachable does not count them as writable
        W = [s.name for s, kd in zip(g.servers, cfg["servers"]) if kd == "rw"]
        RO = [s.name for s, kd in zip(g.servers, cfg["servers"]) if kd in ("ro", "full")]
        existing = {}
        for (shnum, srv) in cfg["pre"]:
            if srv < len(g.servers):
                existing.setdefault(g.servers[srv].name, set()).add(shnum)
        # the uploader only considers the first 2*N servers of the permuted list
        reachable_best = matching.best_placement_spread(set(range(n)), W, RO, existing) if W else matching.happiness(
            {sh: set(nm for nm in RO if sh in existing.get(nm, ())) for sh in range(n)})
        if st == "ok":
            probe("upload-ok")
            sharemap = res.get_sharemap()
            for sh, srvs in sharemap.items():
                for srv in srvs:
                    nm = sid2name.get(srv.get_serverid())
                    if nm is None or nm not in valid_where.get(sh, ()):
                        bad("C06", "reported-share-missing", "upload reports share %d on %s but no complete valid share is there (faults=%r)" % (
                            sh, nm, case.get("faults")))
            if disk_happy < happy:
                bad("C06", "unhappy-success", "upload succeeded but the valid shares on disk have happiness %d < %d (disk=%r faults=%r servers=%r)" % (
                    disk_happy, happy, {sh: sorted(v) for sh, v in disk_map.items()}, case.get("faults"), cfg["servers"]))
        else:
            probe("upload-err-" + err_name(res))
            if not res.check(UploadUnhappinessError) and not faultfree:
                # under injected faults the threshold may still have been reachable, so C06's "fails with an
                # unhappiness error" clause (conditioned on "cannot be met") does not decide; counted only
                probe("upload-err-under-faults-not-unhappiness")
            elif not res.check(UploadUnhappinessError):
                from allmydata.interfaces import NoServersError
                if not (res.check(NoServersError) and not g.servers):
                    bad("C06", "wrong-error", "upload failed with %s instead of an unhappiness error: %s" % (err_name(res), res.getErrorMessage()[:300]),
                        sig="C06.wrong-error." + err_name(res))
            # no partial shares visible, nothing left in incoming/, reservations released
            for s in g.servers:
                for shnum, raw in s.shares_of(si).items():
                    if s.name not in valid_where.get(shnum, ()):
                        bad("C06", "partial-share-visible", "failed upload left an incomplete/invalid share %d visible on %s (faults=%r)" % (shnum, s.name, case.get("faults")))
                inc = s.incoming_files()
                if inc:
                    bad("C06", "incoming-left", "failed upload left %r under incoming/ on %s after all aborts/disconnects were delivered (faults=%r)" % (
                        [os.path.basename(x) for x in inc], s.name, case.get("faults")))
                if s.ss.allocated_size() != 0:
                    bad("C06", "reservation-leak", "allocated_size()=%d on %s after a failed upload" % (s.ss.allocated_size(), s.name))
            if faultfree and len(g.servers) <= 2 * n and reachable_best >= happy and not res.check(UploadUnhappinessError):
                bad("C07", "upload-crashed-but-reachable", "fault-free upload failed with %s (%s) although a layout with happiness %d >= %d is reachable: servers=%r pre-existing=%r" % (
                    err_name(res), res.getErrorMessage()[:160], reachable_best, happy, cfg["servers"], {kx: sorted(v) for kx, v in existing.items()}),
                    sig="C07.upload-crashed-but-reachable.%s%s" % (err_name(res), ".slow-server" if "slow" in cfg["servers"] else ""))
            elif faultfree and len(g.servers) <= 2 * n and reachable_best >= happy:
                bad("C07", "unhappy-but-reachable", "fault-free upload declared unhappy (%s) although a layout with happiness %d >= %d is reachable: servers=%r pre-existing=%r" % (
                    res.getErrorMessage()[:200], reachable_best, happy, cfg["servers"], {kx: sorted(v) for kx, v in existing.items()}))
        if st == "ok":
            for s in g.servers:
                if s.incoming_files() or s.ss.allocated_size() != 0:
                    probe("incoming-after-success")
        return finish(g, viol, probes, case)
    finally:
        mon.close()
        g.close()


# ------------------------------------------------------------------------------------------
# profile: checkrepair (C45)
# ------------------------------------------------------------------------------------------
def gen_checkrepair(seed, tier, focus="C45"):
    case = gen_layout(seed, tier, "C45")
    ch = Chooser(seed)
    cfg = case["cfg"]
    placement = cfg["placement"]
    muts = []
    nm = ch.randint("faults", "nmut45", 0, max(1, len(placement) // 2 + 1))
    for j in range(nm):
        sh, srv = ch.pick("faults", ("mtarget45", j), placement)
        kind = ch.pick("faults", ("mkind45", j), MUT_KINDS)
        muts.append([srv, sh, kind, ch.randrange("faults", ("mp1", j), 1 << 30), ch.randrange("faults", ("mp2", j), 1 << 30)])
    case["muts"] = muts
    case["faults"] = []
    if ch.chance("faults", "repair-write-faults", 0.3):
        # a server chosen for a replacement share accepts the allocation and then fails while the share is written (the
        # repairer uploads with happy=0 and carries on without it): what the results report must still be what exists
        for j in range(ch.randint("faults", "nrwf", 1, 3)):
            case["faults"].append([ch.pick("faults", ("rwf-kind", j), ["error", "error", "disconnect_before", "disconnect_after"]),
                                   ch.randrange("faults", ("rwf-srv", j), max(cfg["n"], cfg["nservers"])),
                                   ch.pick("faults", ("rwf-meth", j), ["write", "write", "close", "allocate_buckets"]),
                                   ch.randint("faults", ("rwf-nth", j), 1, 8), 1.0,
                                   ch.chance("faults", ("rwf-every", j), 0.5)])
    case["profile"] = "checkrepair"
    case["ops"] = [["check", ch.chance("workload", "verify1", 0.6)], ["repair", ch.chance("workload", "verify2", 0.7)]]
    cfg["badseg"] = None
    cfg["add_lease"] = ch.chance("workload", "add-lease", 0.35 if focus != "C17" else 1.0)
    case["focus"] = focus
    return case


def exec_checkrepair(case):
    from sim.runner import child_tmp
    from allmydata.monitor import Monitor
    from allmydata import uri as uri_mod
    cfg = case["cfg"]
    base = tempfile.mkdtemp(dir=child_tmp())
    R.reset_sim()
    apply_knobs(cfg["knobs"])
    viol, probes = [], {}

    def probe(nm, c=1):
        probes[nm] = probes.get(nm, 0) + c

    def bad(clause, detail, sig=None):
        viol.append({"clause": "C45.%s" % clause, "sig": sig or "C45.%s" % clause, "detail": detail})

    k, n = cfg["k"], cfg["n"]
    g = Grid(case["seed"], base, {"lat_profile": "fifo", "base_lat": 0.001})
    if case.get("focus") == "C17":
        g.c17_monitor = Monitors(g, viol)
    try:
        nsrv = max(n, cfg["nservers"])
        for i in range(nsrv):
            g.add_server()
        up = g.add_client(k=k, happy=1, n=n, segsize=cfg["seg"], convergence=conv_secret("A"))
        data = plaintext_of(case)
        st, res = run(up.upload(Data(data, convergence=conv_secret("A"))))
        if st != "ok":
            return finish(g, [], {"setup-failed": 1}, case)
        cap = res.get_uri()
        capd = sharecheck.parse_chk_cap(cap)
        si = refhash.storage_index_from_key(capd["key"])
        originals = {}
        for s in g.servers:
            for shnum, raw in s.shares_of(si).items():
                originals[shnum] = raw
                os.unlink(s.share_path(si, shnum))
        ctx_by_sh = {}
        for shnum in originals:
            ctx_by_sh.setdefault(shnum, {})["swap_shnum"] = originals.get((shnum + 1) % n)
        if any(m[2] == "swap_file" for m in case["muts"]):
            stB, resB = run(up.upload(Data(pat_bytes(cfg["datapat"] + 1, cfg["size"]), convergence=conv_secret("A"))))
            if stB == "ok":
                siB = refhash.storage_index_from_key(sharecheck.parse_chk_cap(resB.get_uri())["key"])
                for s in g.servers:
                    for shnum, raw in s.shares_of(siB).items():
                        ctx_by_sh.setdefault(shnum, {})["swap_file"] = raw
        servers = g.servers[:cfg["nservers"]]
        for (shnum, srv) in cfg["placement"]:
            if shnum in originals:
                p = servers[srv].share_path(si, shnum)
                os.makedirs(os.path.dirname(p), exist_ok=True)
                with open(p, "wb") as f:
                    f.write(originals[shnum])
        for (srv, shnum, kind, p1, p2) in case["muts"]:
            if srv >= len(servers):
                continue
            p = servers[srv].share_path(si, shnum)
            if not os.path.exists(p):
                continue
            with open(p, "rb") as f:
                raw = f.read()
            try:
                new = mutate_share(raw, kind, p1, p2, ctx_by_sh.get(shnum, {}))
            except sharecheck.Bad:
                new = raw
            if new is None:
                os.unlink(p)
            else:
                with open(p, "wb") as f:
                    f.write(new)
            probe("mut-" + kind)
        g.net.profile = cfg["net"]["lat_profile"]
        g.net.jitter = cfg["net"]["jitter"]
        g.net.batch = cfg["net"].get("batch", 0) or 0
        g.set_threads(cfg["net"].get("threads"))
        # the checking/repairing client knows only the verify-cap; it is connected to the layout servers
        # plus the spare servers (repair needs somewhere to put new shares)
        ck = g.add_client(k=k, happy=1, n=n, segsize=cfg["seg"], connect=False)
        for s in g.servers:
            g.connect(ck, s)
        vcap = uri_mod.from_string(cap).get_verify_cap().to_string()
        vnode = ck.create_node_from_uri(vcap)
        sid2name = {s.serverid: s.name for s in g.servers}
        valid_where, pieces = sharecheck.good_shares_on_disk(g.servers, si, capd)
        lenient_where, _lp = sharecheck.good_shares_on_disk(g.servers, si, capd, lenient_ueb=True)
        present, identical_where = {}, {}
        for s in g.servers:
            for shnum, raw in s.shares_of(si).items():
                present.setdefault(shnum, set()).add(s.name)
                try:
                    if shnum in originals and sharecheck.split_container(raw)[1] == sharecheck.split_container(originals[shnum])[1]:
                        identical_where.setdefault(shnum, set()).add(s.name)
                except sharecheck.Bad:
                    pass
        before_files = {(s.name, shnum): raw for s in g.servers for shnum, raw in s.shares_of(si).items()}
        # ---- check
        verify = case["ops"][0][1]
        stc, cr = run(vnode.check(Monitor(), verify=verify, add_lease=bool(cfg.get("add_lease"))))
        if stc != "ok":
            bad("check-failed", "check(verify=%s) %s: %s" % (verify, stc, cr.getTraceback()[-600:] if stc == "err" else ""),
                sig="C45.check-failed." + (err_name(cr) if stc == "err" else "hung"))
        else:
            sm = {sh: set(sid2name.get(srv.get_serverid()) for srv in srvs) for sh, srvs in cr.get_sharemap().items()}
            sm = {sh: v for sh, v in sm.items() if v}
            probe("check-verify" if verify else "check-noverify")
            if verify:
                # only-if direction: whatever is reported good must validate (leniently: a reader whose
                # over-long UEB read is clipped); if direction: an untouched share must be reported good
                extra = {sh: sorted(v - set(lenient_where.get(sh, ()))) for sh, v in sm.items() if v - set(lenient_where.get(sh, ()))}
                miss = {sh: sorted(set(v) - sm.get(sh, set())) for sh, v in identical_where.items() if set(v) - sm.get(sh, set())}
            else:
                extra = {sh: sorted(v - set(present.get(sh, ()))) for sh, v in sm.items() if v - set(present.get(sh, ()))}
                miss = {sh: sorted(set(v) - sm.get(sh, set())) for sh, v in present.items() if set(v) - sm.get(sh, set())}
            if extra:
                bad("bad-share-reported-good", "check(verify=%s) lists as good shares that do not validate independently: %r (muts=%r)" % (verify, extra, case["muts"]))
            if miss:
                bad("good-share-not-reported", "check(verify=%s) does not list untouched shares: %r (muts=%r)" % (verify, miss, case["muts"]))
            ngood = len(sm)
            if cr.is_healthy() != (ngood >= n):
                bad("healthy", "is_healthy()=%s but the check found %d distinct good shares of N=%d (verify=%s)" % (cr.is_healthy(), ngood, n, verify))
            if cr.is_recoverable() != (ngood >= k):
                bad("recoverable", "is_recoverable()=%s but the check found %d distinct good shares, k=%d (verify=%s)" % (cr.is_recoverable(), ngood, k, verify))
            if cr.is_healthy() and len(lenient_where if verify else present) < n:
                bad("healthy-but-missing", "reported healthy although ground truth has only %d distinct good shares" % len(lenient_where if verify else present))
        # ---- repair through the verify-cap only
        verify2 = case["ops"][1][1]
        vnode2 = ck.create_node_from_uri(vcap)
        for fl in case.get("faults", []):
            kind_, srv_, meth_, nth_, secs_, every_ = fl
            if srv_ < len(g.servers):
                g.net.add_fault({"kind": kind_, "callee": g.servers[srv_].name, "caller": ck.sim_name, "method": meth_, "nth": nth_, "secs": secs_,
                                 "every": bool(every_) and kind_ == "error"})
        str_, crr = run(vnode2.check_and_repair(Monitor(), verify=verify2, add_lease=bool(cfg.get("add_lease"))))
        truth2 = lenient_where if verify2 else present
        after_files = {(s.name, shnum): raw for s in g.servers for shnum, raw in s.shares_of(si).items()}
        # existing good shares must not be altered (share bytes; leases may be added)
        for (nm_, shnum), raw in before_files.items():
            if nm_ in valid_where.get(shnum, ()):
                new = after_files.get((nm_, shnum))
                if new is None:
                    bad("good-share-removed", "repair removed good share %d on %s" % (shnum, nm_))
                else:
                    try:
                        if sharecheck.split_container(new)[1] != sharecheck.split_container(raw)[1]:
                            bad("good-share-altered", "repair altered the bytes of good share %d on %s" % (shnum, nm_))
                    except sharecheck.Bad:
                        bad("good-share-altered", "repair left good share %d on %s unparseable" % (shnum, nm_))
        newfiles = {kx: v for kx, v in after_files.items() if kx not in before_files}
        if str_ == "ok":
            if crr.get_repair_attempted():
                probe("repair-attempted")
                if crr.get_repair_successful():
                    probe("repair-successful")
                    # every new share validates under the original cap; the file is readable from new shares alone
                    new_valid = {}
                    for (nm_, shnum), raw in newfiles.items():
                        try:
                            v = sharecheck.validate_share(sharecheck.split_container(raw)[1], shnum, capd)
                            new_valid[shnum] = v
                        except (sharecheck.Bad, Exception) as e:
                            bad("repaired-share-invalid", "share %d written by repair on %s does not validate under the original cap: %r" % (shnum, nm_, e))
                    where2, _p2 = sharecheck.good_shares_on_disk(g.servers, si, capd, lenient_ueb=bool(verify2))
                    if not verify2:
                        where2 = {}
                        for s_ in g.servers:
                            for shn_ in s_.shares_of(si):
                                where2.setdefault(shn_, set()).add(s_.name)
                    try:
                        psm = {sh: set(sid2name.get(srv.get_serverid()) for srv in srvs)
                               for sh, srvs in crr.get_post_repair_results().get_sharemap().items()}
                    except Exception:
                        psm = {}
                    ghost = {sh: sorted(x for x in v if x and x not in where2.get(sh, ())) for sh, v in psm.items()}
                    ghost = {sh: v for sh, v in ghost.items() if v}
                    if ghost:
                        bad("post-repair-share-missing", "the post-repair results list shares that are not (valid) on those servers: %r (faults=%r)" % (ghost, case.get("faults")))
                    if len(where2) < n:
                        bad("repair-not-healthy", "repair reported success but only %d distinct valid shares are on disk (N=%d)" % (len(where2), n))
                    if len(new_valid) >= k:
                        try:
                            if sharecheck.decode(new_valid, capd, capd["key"]) != data:
                                bad("repaired-decode", "the shares written by repair decode to different bytes")
                            probe("decoded-from-new-shares-alone")
                        except sharecheck.Bad as e:
                            bad("repaired-decode", "the shares written by repair do not decode: %s" % e)
                        # and through the production reader with every old share removed
                        for (nm_, shnum) in before_files:
                            p = g.server_by_name(nm_).share_path(si, shnum)
                            if (nm_, shnum) not in newfiles and os.path.exists(p):
                                os.unlink(p)
                        rd = g.add_client(k=3, happy=1, n=10)
                        cons = CheckingConsumer("post-repair", data, 0)
                        st3, r3 = run(rd.create_node_from_uri(cap).read(cons))
                        if st3 != "ok" or cons.data() != data or cons.wrong is not None:
                            bad("read-from-repaired", "reading with the original read-cap from the repaired shares alone: %s" % (
                                st3 if st3 != "err" else err_name(r3)))
                else:
                    probe("repair-unsuccessful")
                    if len(truth2) >= k and len(g.servers) >= n:
                        probe("repair-unsuccessful-though-recoverable")
            else:
                probe("repair-not-needed")
                if len(truth2) < n:
                    bad("repair-skipped", "no repair attempted although only %d distinct good shares (N=%d, verify=%s)" % (len(truth2), n, verify2))
        elif str_ == "err":
            probe("repair-err-" + err_name(crr))
            if len(identical_where) >= k and verify2 and not case.get("faults"):
                bad("repair-failed", "check_and_repair failed with %s although %d valid shares (k=%d) exist: %s" % (
                    err_name(crr), len(valid_where), k, crr.getErrorMessage()[:300]), sig="C45.repair-failed." + err_name(crr))
        else:
            bad("repair-hung", "check_and_repair never completed")
        return finish(g, viol, probes, case)
    finally:
        g.close()
