"""gmsim — server ordering and grid-manager certificates under a simulated clock (DESIGN §4 C32, C33).

Several real clients (real StorageFarmBroker / NativeStorageServer, built from tahoe.cfg the way
create_client does) learn the same storage servers in different orders, with different connection
histories; servers announce grid-manager certificates of drawn kinds (valid, expired, expiring during
the run, signed by an unconfigured key, naming another server, tampered bytes, tampered or swapped
signature, other time zones).  The simulated clock is moved to and around the expiry instants while the
clients query orders and permissions and perform real immutable uploads and mutable publishes.

Oracles are independent of allmydata: SHA-1 permutation, ed25519 verification by `cryptography`, JSON and
datetime from the standard library.
"""
import base64
import hashlib
import json
import os
import tempfile
from datetime import datetime, timezone, timedelta

from cryptography.exceptions import InvalidSignature
from cryptography.hazmat.primitives.asymmetric.ed25519 import Ed25519PrivateKey, Ed25519PublicKey
from cryptography.hazmat.primitives import serialization

from sim import boot
from sim.choice import Chooser
from sim.reactor import EPOCH

R = boot.install()

from engines.gridsim import Grid, run                                   # noqa: E402
import allmydata.grid_manager as gm_mod                                 # noqa: E402
from allmydata.immutable.upload import Data                             # noqa: E402
from allmydata.mutable.publish import MutableData                       # noqa: E402


def _sim_now():
    return datetime.fromtimestamp(R.seconds(), timezone.utc)


class SimDateTime(datetime):
    """datetime whose now() reads the simulated clock; the real current_datetime_with_zone() (the verifier's default clock)
    runs on top of it, under a process time zone drawn per run."""
    @classmethod
    def now(cls, tz=None):
        return cls.fromtimestamp(R.seconds(), tz)

    @classmethod
    def utcnow(cls):
        return cls.fromtimestamp(R.seconds(), timezone.utc).replace(tzinfo=None)


# the only clock grid_manager.py reads is datetime.now(...) inside current_datetime_with_zone()
gm_mod.datetime = SimDateTime
gm_mod.print = lambda *a, **k: None          # the default bad_cert callback prints each rejected certificate


def b32(b):
    return base64.b32encode(b).decode("ascii").rstrip("=").lower()


def keypair(label):
    priv = Ed25519PrivateKey.from_private_bytes(hashlib.sha256(b"gmsim-" + label.encode()).digest())
    raw = priv.public_key().public_bytes(serialization.Encoding.Raw, serialization.PublicFormat.Raw)
    return priv, raw


def iso(ts_us, tz_minutes):
    """integer microseconds since the Unix epoch -> ISO-8601 in the given zone"""
    dt = datetime(1970, 1, 1, tzinfo=timezone.utc) + timedelta(microseconds=ts_us)
    return dt.astimezone(timezone(timedelta(minutes=tz_minutes))).isoformat()


CERT_KINDS = [("valid", 6), ("rogue", 2), ("other-server", 2), ("tamper-expiry", 2), ("tamper-subject", 1.5), ("tamper-sig", 1.5),
              ("swap-sig", 1.5), ("unconfigured-gm", 1),
              # a genuine certificate followed by an edited copy carrying the same signature (the client has then already
              # verified that signature once)
              ("genuine-then-edited-expiry", 1.5), ("genuine-then-edited-subject", 1.5),
              # a certificate entry the client cannot even parse
              ("garbled", 1.0)]


def gen_certs(ch, lab, nservers, ngm, horizon):
    out = []
    for j in range(ch.weighted("config", lab + ("ncerts",), [(0, 2), (1, 5), (2, 3), (3, 1.5), (4, 0.5)])):
        kind = ch.weighted("config", lab + ("kind", j), CERT_KINDS)
        when = ch.weighted("config", lab + ("when", j), [("past", 2), ("during", 5), ("future", 3)])
        if when == "past":
            off = -ch.randint("config", lab + ("off", j), 0, 86400)
        elif when == "during":
            off = ch.randint("config", lab + ("off", j), 1, horizon)
        else:
            off = horizon + ch.randint("config", lab + ("off", j), 1, 10 ** 7)
        us = ch.pick("config", lab + ("us", j), [0, 0, 0, 500000, 1, 999999])
        tz = ch.pick("config", lab + ("tz", j), [0, 0, 0, 120, -330, 765])
        out.append({"kind": kind, "gm": ch.randrange("config", lab + ("gm", j), max(1, ngm)),
                    "expires_us": (int(EPOCH) + off) * 10 ** 6 + us, "tz": tz,
                    "x": ch.randrange("config", lab + ("x", j), 1 << 16)})
    return out


def gen_gm(seed, tier, focus):
    ch = Chooser(seed)
    W = "workload"
    nservers = ch.randint("config", "nservers", 2, 8)
    ngm = ch.weighted("config", "ngm", [(0, 1.5), (1, 5), (2, 3), (3, 1)])
    horizon = ch.pick("config", "horizon", [60, 3600, 86400 * 30])
    servers = []
    for i in range(nservers):
        servers.append({"certs": gen_certs(ch, ("s", i), nservers, ngm, horizon),
                        "seed_in_ann": ch.chance("config", ("seed-in-ann", i), 0.6)})
    npref = ch.weighted("config", "npref", [(0, 3), (1, 3), (2, 2), (3, 1)])
    pref = ch.sample("config", "pref", list(range(nservers)), min(npref, nservers))
    n = ch.randint("config", "n", 1, 5)
    k = ch.randint("config", "k", 1, n)
    clients = []
    for c in range(ch.randint("config", "nclients", 2, 3)):
        if c < 2:
            # the first two clients share one configuration: they must agree whenever they see the same servers
            clients.append({"pref": pref, "gms": list(range(ngm)), "order": ch.shuffle("config", ("order", c), list(range(nservers)))})
        else:
            clients.append({"pref": ch.sample("config", ("pref", c), list(range(nservers)), ch.randint("config", ("npref", c), 0, min(2, nservers))),
                            "gms": ch.sample("config", ("gms", c), list(range(ngm)), ch.randint("config", ("ngms", c), 0, ngm)) if ngm else [],
                            "order": ch.shuffle("config", ("order", c), list(range(nservers)))})
    for c_, cc_ in enumerate(clients):
        # the same list spelled differently in each client's tahoe.cfg
        cc_["prefsep"] = ch.pick("config", ("prefsep", c_), [",", ",", ", ", " , ", ",\n  "])
    ops = []
    nops = ch.randint(W, "nops", 4, 16 if tier == "quick" else 30)
    weights = [("query", 5), ("permitted", 4), ("advance", 3), ("to-expiry", 4), ("upload", 2.5), ("mcreate", 1.5), ("mwrite", 2),
               ("disconnect", 1.2), ("reconnect", 1.2), ("reannounce", 1.2)]
    ncl = len(clients)
    for i in range(nops):
        kd = ch.weighted(W, ("k", i), weights)
        if kd == "query":
            ops.append(["query", ch.bytes(W, ("si", i), 16).hex()])
        elif kd == "permitted":
            ops.append(["permitted"])
        elif kd == "advance":
            ops.append(["advance", ch.pick(W, ("dt", i), [0.5, 7, 59, 600, 3599, 86400, horizon // 3 + 1])])
        elif kd == "to-expiry":
            ops.append(["to-expiry", ch.randrange(W, ("s", i), nservers), ch.randrange(W, ("c", i), 4),
                        ch.pick(W, ("delta", i), [0, 0, -1, 1, -1000, 1000, -1000000, 1000000])])
        elif kd == "upload":
            ops.append(["upload", ch.randrange(W, ("c", i), ncl), ch.randint(W, ("sz", i), 56, 3000), ch.randrange(W, ("salt", i), 1 << 30)])
        elif kd == "mcreate":
            ops.append(["mcreate", ch.randrange(W, ("c", i), ncl), ch.randint(W, ("sz", i), 0, 2000), ch.pick(W, ("fmt", i), ["sdmf", "mdmf"])])
        elif kd == "mwrite":
            ops.append(["mwrite", ch.randrange(W, ("c", i), ncl), ch.randrange(W, ("f", i), 8), ch.randint(W, ("sz", i), 0, 2000)])
        elif kd in ("disconnect", "reconnect"):
            ops.append([kd, ch.randrange(W, ("c", i), ncl), ch.randrange(W, ("s", i), nservers)])
        else:
            ops.append(["reannounce", ch.randrange(W, ("s", i), nservers), gen_certs(ch, ("re", i), nservers, ngm, horizon),
                        ch.sample(W, ("who", i), list(range(ncl)), ch.randint(W, ("nwho", i), 1, ncl))])
    # every case ends by looking at everything once more
    ops += [["permitted"], ["query", ch.bytes(W, "si-final", 16).hex()]]
    return {"engine": "gmsim", "seed": seed, "focus": focus,
            "cfg": {"tz": ch.pick("config", "tz", ["UTC", "UTC", "XST8", "XST-8", "XST-5:30"]),
                    "nservers": nservers, "ngm": ngm, "servers": servers, "clients": clients, "k": k, "n": n, "happy": 1,
                    "net": {"threads": ch.pick("config", "threads", ["sync", "sync", "async"]), "batch": ch.pick("config", "batch", [0, 0, 0, 0.001, 0.02, 0.3]), "lat_profile": ch.pick("config", "lat", ["uniform", "heavy", "fifo"]), "jitter": 0.3}},
            "ops": ops, "faults": []}


def _aslist(x):
    return x if isinstance(x, list) else [x]


class Certs(object):
    """Builds signed certificates (independently of allmydata.grid_manager) and decides permission."""
    def __init__(self, ngm, server_keys):
        self.gms = [keypair("gm-%d" % i) for i in range(ngm)]
        self.rogue = keypair("gm-rogue")
        self.unconfigured = keypair("gm-unconfigured")
        self.server_keys = server_keys       # raw 32-byte public keys

    def subject(self, i):
        return "pub-v0-" + b32(self.server_keys[i])

    def _sign(self, priv, subject, expires_us, tz):
        body = json.dumps({"expires": iso(expires_us, tz), "public_key": subject, "version": 1},
                          separators=(",", ":"), sort_keys=True).encode("utf-8")
        return body, priv.sign(body)

    def build(self, si, spec):
        """-> the JSON-able dict that goes into the announcement"""
        kind = spec["kind"]
        nsrv = len(self.server_keys)
        gm = self.gms[spec["gm"] % len(self.gms)][0] if self.gms else self.unconfigured[0]
        if kind == "rogue":
            body, sig = self._sign(self.rogue[0], self.subject(si), spec["expires_us"], spec["tz"])
        elif kind == "unconfigured-gm":
            body, sig = self._sign(self.unconfigured[0], self.subject(si), spec["expires_us"], spec["tz"])
        elif kind == "other-server":
            body, sig = self._sign(gm, self.subject((si + 1 + spec["x"] % max(1, nsrv - 1)) % nsrv), spec["expires_us"], spec["tz"])
        elif kind == "tamper-expiry":
            # a genuinely signed certificate that expired a year before the epoch, with its date edited to the drawn one
            body0, sig = self._sign(gm, self.subject(si), (int(EPOCH) - 365 * 86400) * 10 ** 6, 0)
            body = json.dumps({"expires": iso(spec["expires_us"], spec["tz"]), "public_key": self.subject(si), "version": 1},
                              separators=(",", ":"), sort_keys=True).encode("utf-8")
        elif kind == "genuine-then-edited-expiry":
            body0, sig = self._sign(gm, self.subject(si), (int(EPOCH) - 3 * 86400) * 10 ** 6, 0)       # genuine, long expired
            body = json.dumps({"expires": iso(spec["expires_us"], spec["tz"]), "public_key": self.subject(si), "version": 1},
                              separators=(",", ":"), sort_keys=True).encode("utf-8")
            return [{"certificate": body0.decode("utf-8"), "signature": b32(sig)}, {"certificate": body.decode("utf-8"), "signature": b32(sig)}]
        elif kind == "genuine-then-edited-subject":
            other = (si + 1 + spec["x"] % max(1, nsrv - 1)) % nsrv
            body0, sig = self._sign(gm, self.subject(other), spec["expires_us"], spec["tz"])           # genuine, names another server
            body = body0.replace(self.subject(other).encode(), self.subject(si).encode())
            return [{"certificate": body0.decode("utf-8"), "signature": b32(sig)}, {"certificate": body.decode("utf-8"), "signature": b32(sig)}]
        elif kind == "garbled":
            body, sig = self._sign(gm, self.subject(si), spec["expires_us"], spec["tz"])
            return [{"certificate": body.decode("utf-8"), "signature": "!!not base32!!"},
                    {"certificate": body.decode("utf-8")},
                    {"certificate": body.decode("utf-8"), "signature": None},
                    {"certificate": "{not json", "signature": b32(sig)}][spec["x"] % 4]
        elif kind == "tamper-subject":
            other = (si + 1 + spec["x"] % max(1, nsrv - 1)) % nsrv
            body0, sig = self._sign(gm, self.subject(other), spec["expires_us"], spec["tz"])
            body = body0.replace(self.subject(other).encode(), self.subject(si).encode())
        elif kind == "tamper-sig":
            body, sig = self._sign(gm, self.subject(si), spec["expires_us"], spec["tz"])
            b = bytearray(sig)
            b[spec["x"] % len(b)] ^= 1 << (spec["x"] % 8)
            sig = bytes(b)
        elif kind == "swap-sig":
            body, _ = self._sign(gm, self.subject(si), spec["expires_us"], spec["tz"])
            _, sig = self._sign(gm, self.subject(si), spec["expires_us"] + 10 ** 6, spec["tz"])
        else:
            body, sig = self._sign(gm, self.subject(si), spec["expires_us"], spec["tz"])
        return {"certificate": body.decode("utf-8"), "signature": b32(sig)}

    def permitted(self, gm_indexes, si, cert_dicts, now):
        """the documented predicate"""
        if not gm_indexes:
            return True
        for cd in cert_dicts:
            try:
                body = cd["certificate"].encode("utf-8")
                s = cd["signature"].upper()
                sig = base64.b32decode(s + "=" * ((8 - len(s) % 8) % 8))
                json.loads(body)
            except Exception:
                continue            # not a certificate at all: it cannot grant anything
            for gi in gm_indexes:
                try:
                    Ed25519PublicKey.from_public_bytes(self.gms[gi][1]).verify(sig, body)
                except InvalidSignature:
                    continue
                cert = json.loads(body)
                if cert["public_key"] == self.subject(si) and datetime.fromisoformat(cert["expires"]) > now:
                    return True
        return False


def exec_gm(case):
    from sim.runner import child_tmp
    cfg = case["cfg"]
    focus = case.get("focus", "C32")
    base = tempfile.mkdtemp(dir=child_tmp())
    R.reset_sim()
    viol, probes = [], {}
    # the process's local time zone (the predicate must compare instants, whatever the local zone is)
    import time as _time_mod
    os.environ["TZ"] = cfg.get("tz", "UTC")
    _time_mod.tzset()

    def probe(nm, c=1):
        probes[nm] = probes.get(nm, 0) + c

    def bad(prop, clause, detail, sig=None):
        viol.append({"clause": "%s.%s" % (prop, clause), "sig": sig or "%s.%s" % (prop, clause), "detail": detail})

    g = Grid(case["seed"], base, cfg["net"])
    try:
        nsrv = cfg["nservers"]
        skeys = [keypair("server-%d-%d" % (case["seed"] % 7, i))[1] for i in range(nsrv)]
        certs = Certs(cfg["ngm"], skeys)
        for i in range(nsrv):
            s = g.add_server()
            s.pubkey = skeys[i]
            s.serverid = b"v0-" + b32(skeys[i]).encode("ascii")
        cur_specs = {i: cfg["servers"][i]["certs"] for i in range(nsrv)}

        def ann_of(i, specs):
            s = g.servers[i]
            ann = {"anonymous-storage-FURL": "pb://%s@nowhere/fake-%d" % (b32(s.tubid), i), "nickname": s.name,
                   "grid-manager-certificates": [cd for sp in specs for cd in _aslist(certs.build(i, sp))]}
            if cfg["servers"][i]["seed_in_ann"]:
                ann["permutation-seed-base32"] = b32(hashlib.sha256(b"pseed-%d" % i).digest())
            return ann

        def pseed(i):
            return hashlib.sha256(b"pseed-%d" % i).digest() if cfg["servers"][i]["seed_in_ann"] else skeys[i]

        clients = []
        view = {}          # (client index, server index) -> {"ann": ..., "connected": bool}
        for ci, cc in enumerate(cfg["clients"]):
            extra = ""
            if cc["pref"]:
                extra += "peers.preferred = %s\n" % cc.get("prefsep", ",").join(g.servers[i].serverid.decode("ascii") for i in cc["pref"])
            if cc["gms"]:
                extra += "[grid_managers]\n" + "".join("gm%d = pub-v0-%s\n" % (gi, b32(certs.gms[gi][1])) for gi in cc["gms"])
            c = g.add_client(k=cfg["k"], happy=cfg["happy"], n=cfg["n"], connect=False, extra_cfg=extra)
            clients.append(c)
            for i in cc["order"]:
                ann = ann_of(i, cur_specs[i])
                g.servers[i].announcement = (lambda ann=ann: ann)
                try:
                    g.connect(c, g.servers[i])
                    view[(ci, i)] = {"ann": ann, "connected": True}
                except Exception:
                    # the client could not make sense of the announcement: it does not know this server at all
                    view[(ci, i)] = {"ann": ann, "connected": False}
                    probe("announcement-rejected-by-client")

        def ref_permitted(ci, i, now=None):
            return certs.permitted(cfg["clients"][ci]["gms"], i, view[(ci, i)]["ann"]["grid-manager-certificates"], now or _sim_now())

        def ref_order(ci, psi, for_upload):
            cc = cfg["clients"][ci]
            lst = [i for i in range(nsrv) if view[(ci, i)]["connected"] and (not for_upload or ref_permitted(ci, i))]
            return sorted(lst, key=lambda i: (0 if i in cc["pref"] else 1, hashlib.sha1(psi + pseed(i)).digest()))

        name_to_index = {g.servers[i].name: i for i in range(nsrv)}
        id_to_index = {g.servers[i].serverid: i for i in range(nsrv)}
        cname_to_index = {c.sim_name: ci for ci, c in enumerate(clients)}

        # transport monitor: where do share-creating messages go?
        op_start_perm = {}
        existing = set()          # (server index, SI, shnum) shares that exist (written through this transport)

        def on_call(caller, callee, methname, args, kwargs, res):
            if caller not in cname_to_index or callee not in name_to_index:
                return
            ci, i = cname_to_index[caller], name_to_index[callee]
            creating = []
            if methname == "allocate_buckets":
                creating = sorted(args[3])
                si = args[0]
            elif methname == "slot_testv_and_readv_and_writev":
                si = args[0]
                for shnum, (testv, datav, newlen) in args[2].items():
                    if datav and (i, si, shnum) not in existing:
                        creating.append(shnum)
            if not creating:
                return
            probe("share-creating-message")
            if not (ref_permitted(ci, i) or op_start_perm.get((ci, i), False)):
                probe("creating-message-to-unpermitted")
                bad("C32", "upload-sent-to-unpermitted-server",
                    "client %s sent %s creating shares %r to server %s, which holds no currently valid certificate from its configured grid managers "
                    "(neither now, t=%.6f, nor when the operation began)" % (caller, methname, creating, callee, R.seconds() - EPOCH),
                    sig="C32.upload-sent-to-unpermitted-server." + methname)
            for shnum in creating:
                existing.add((i, si, shnum))
        g.net.call_filter = on_call

        def snapshot_perm():
            op_start_perm.clear()
            for ci in range(len(clients)):
                for i in range(nsrv):
                    op_start_perm[(ci, i)] = ref_permitted(ci, i)

        def check_orders(psi):
            orders = {}
            for ci, c in enumerate(clients):
                for fu in (False, True):
                    try:
                        got = [id_to_index[s.get_serverid()] for s in c.storage_broker.get_servers_for_psi(psi, for_upload=fu)]
                    except Exception as e:
                        bad("C32", "order-raised", "get_servers_for_psi(for_upload=%s) raised %s: %s" % (fu, type(e).__name__, e),
                            sig="C32.order-raised." + type(e).__name__)
                        continue
                    want = ref_order(ci, psi, fu)
                    orders[(ci, fu)] = got
                    if set(got) != set(want):
                        if fu:
                            extra, missing = sorted(set(got) - set(want)), sorted(set(want) - set(got))
                            bad("C32", "upload-set", "client c%d for_upload server set %r, expected %r at t=%.6f (offered without a valid certificate: %r; "
                                "withheld although permitted: %r)" % (ci, sorted(got), sorted(want), R.seconds() - EPOCH, extra, missing),
                                sig="C32.upload-set." + ("offered-unpermitted" if extra else "withheld-permitted"))
                        else:
                            bad("C32", "server-set", "client c%d server set %r, connected %r" % (ci, sorted(got), sorted(want)))
                    elif got != want:
                        cc = cfg["clients"][ci]
                        npref_first = [i in cc["pref"] for i in got]
                        if sorted(npref_first, reverse=True) != npref_first:
                            bad("C32", "preferred-not-first", "client c%d (peers.preferred = servers %r) orders %r for SI %s: preferred servers do not come first "
                                "(expected %r)" % (ci, cc["pref"], got, psi.hex(), want))
                        else:
                            bad("C32", "order", "client c%d orders %r for SI %s, the permutation by SHA1(SI + seed) is %r" % (ci, got, psi.hex(), want))
                    else:
                        probe("order-checked")
                        if cfg["clients"][ci]["pref"] and any(i in cfg["clients"][ci]["pref"] for i in got):
                            probe("order-with-preferred")
            # the two identically configured clients agree whenever they are connected to the same servers
            for fu in (False, True):
                if (0, fu) in orders and (1, fu) in orders:
                    same_view = all(view[(0, i)]["connected"] == view[(1, i)]["connected"] and view[(0, i)]["ann"] == view[(1, i)]["ann"] for i in range(nsrv))
                    if same_view:
                        probe("two-clients-compared")
                        if orders[(0, fu)] != orders[(1, fu)]:
                            bad("C32", "clients-disagree", "c0 and c1 (same configuration, same connected servers, learned in different orders) "
                                "compute %r and %r for SI %s for_upload=%s" % (orders[(0, fu)], orders[(1, fu)], psi.hex(), fu))

        def check_permitted():
            now = _sim_now()
            for ci, c in enumerate(clients):
                for i in range(nsrv):
                    ns = c.storage_broker.servers.get(g.servers[i].serverid)
                    if ns is None:
                        continue        # the client rejected this server's announcement outright: nothing can be uploaded there
                    try:
                        got = ns.upload_permitted()
                    except Exception as e:
                        bad("C33", "predicate-raised", "upload_permitted raised %s: %s" % (type(e).__name__, e), sig="C33.predicate-raised." + type(e).__name__)
                        continue
                    want = ref_permitted(ci, i, now)
                    probe("permitted-%s" % want)
                    if got is not want:
                        specs = view[(ci, i)].get("specs")
                        kinds = sorted(set(sp["kind"] for sp in specs)) if specs is not None else []
                        bad("C33", "granted-without-valid-certificate" if got else "denied-despite-valid-certificate",
                            "client c%d (grid managers %r) server s%d at t=%.6f: upload_permitted() = %r, the documented predicate gives %r; certificates: %s" % (
                                ci, cfg["clients"][ci]["gms"], i, R.seconds() - EPOCH, got, want,
                                json.dumps([[sp["kind"], sp["gm"], sp["expires_us"] / 1e6 - EPOCH] for sp in (specs or [])])),
                            sig="C33.%s.%s" % ("granted" if got else "denied", "+".join(kinds)))

        for (ci, i) in view:
            view[(ci, i)]["specs"] = cur_specs[i]
        mutables = []      # (client index, node)
        for opi, op in enumerate(case["ops"]):
            kd = op[0]
            R.note("op %d %s" % (opi, kd))
            if kd == "query":
                check_orders(bytes.fromhex(op[1]))
            elif kd == "permitted":
                check_permitted()
            elif kd == "advance":
                R.advance(op[1])
                probe("advance")
            elif kd == "to-expiry":
                # prefer a genuinely valid certificate that is still to expire (the instant that matters), on the nearest server that has one
                specs = []
                for off in range(nsrv):
                    cand = cur_specs[(op[1] + off) % nsrv]
                    live = [sp for sp in cand if sp["kind"] == "valid" and (sp["expires_us"] + op[3]) / 1e6 > R.seconds()]
                    if live:
                        specs = live
                        break
                    if not specs and cand:
                        specs = cand
                if specs:
                    sp = specs[op[2] % len(specs)]
                    target = (sp["expires_us"] + op[3]) / 1e6
                    if target > R.seconds():
                        R.advance(target - R.seconds())
                        probe("moved-to-expiry%+d" % op[3])
                        check_permitted()
                        check_orders(hashlib.md5(b"%d" % opi).digest())
            elif kd == "upload":
                ci = op[1] % len(clients)
                snapshot_perm()
                data = g.ch.bytes("data", ("upload", opi), op[2])
                st, res = run(clients[ci].upload(Data(data, convergence=b"%d" % op[3])))
                probe("upload-" + st)
                if st == "hung":
                    bad("C32", "upload-hung", "upload never finished")
            elif kd == "mcreate":
                ci = op[1] % len(clients)
                snapshot_perm()
                from allmydata.interfaces import SDMF_VERSION, MDMF_VERSION
                data = g.ch.bytes("data", ("mcreate", opi), op[2])
                st, res = run(clients[ci].create_mutable_file(MutableData(data), version=SDMF_VERSION if op[3] == "sdmf" else MDMF_VERSION))
                probe("mcreate-" + st)
                if st == "ok":
                    mutables.append((ci, res))
                elif st == "hung":
                    bad("C32", "publish-hung", "mutable create never finished")
            elif kd == "mwrite":
                if mutables:
                    mci, node = mutables[op[2] % len(mutables)]
                    ci = op[1] % len(clients)
                    n2 = clients[ci].create_node_from_uri(node.get_uri())
                    snapshot_perm()
                    data = g.ch.bytes("data", ("mwrite", opi), op[3])
                    st, res = run(n2.overwrite(MutableData(data)))
                    probe("mwrite-" + st)
                    if st == "hung":
                        bad("C32", "publish-hung", "mutable overwrite never finished")
            elif kd == "disconnect":
                ci, i = op[1] % len(clients), op[2] % nsrv
                if view[(ci, i)]["connected"]:
                    g.net.disconnect(clients[ci].sim_name, g.servers[i].name, "op")
                    R.run_until(None, 100000, until_time=R.true_seconds() + 0.001)
                    view[(ci, i)]["connected"] = False
                    probe("disconnect")
            elif kd == "reconnect":
                ci, i = op[1] % len(clients), op[2] % nsrv
                down = [(a, b) for (a, b) in sorted(view) if not view[(a, b)]["connected"]]
                if down and view[(ci, i)]["connected"]:
                    ci, i = down[(op[1] + op[2]) % len(down)]
                if not view[(ci, i)]["connected"] and g.servers[i].serverid in clients[ci].storage_broker.servers:
                    g.reconnect(clients[ci], g.servers[i])
                    view[(ci, i)]["connected"] = True
                    probe("reconnect")
            elif kd == "reannounce":
                i = op[1] % nsrv
                cur_specs[i] = op[2]
                ann = ann_of(i, op[2])
                g.servers[i].announcement = (lambda ann=ann: ann)
                for ci in op[3]:
                    ci = ci % len(clients)
                    g.net.heal(clients[ci].sim_name, g.servers[i].name)
                    try:
                        g.connect(clients[ci], g.servers[i])
                        view[(ci, i)] = {"ann": ann, "connected": True, "specs": op[2]}
                    except Exception:
                        # an announcement the client cannot parse leaves its previous knowledge of the server in place
                        probe("announcement-rejected-by-client")
                        if g.servers[i].serverid not in clients[ci].storage_broker.servers:
                            view[(ci, i)] = {"ann": ann, "connected": False, "specs": op[2]}
                probe("reannounce")
            if viol:
                break
        fp = hashlib.sha256(repr(sorted(probes.items())).encode()).hexdigest()[:16]
        if R.errors:
            viol.append({"clause": "%s.unhandled-error" % focus, "sig": "%s.unhandled-error" % focus, "detail": R.errors[0][1][-1200:]})
        props = {"C32": ("C32",), "C33": ("C33",)}.get(focus, (focus,))
        return {"violations": [v for v in viol if v["clause"].split(".")[0] in props][:4], "digest": R.digest(), "fingerprint": fp,
                "nontrivial": probes.get("order-checked", 0) + probes.get("permitted-True", 0) + probes.get("permitted-False", 0) > 0,
                "events": R.events, "sim_s": R.true_seconds() - EPOCH, "faults": dict(g.net.fired), "probes": probes}
    finally:
        g.close()
