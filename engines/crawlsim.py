"""crawlsim — ShareCrawler / LeaseCheckingCrawler under a simulated clock that advances
*inside* process_bucket (that is what trips TimeSliceExceeded), with graceful restarts and
crashfs kills followed by restart from the persisted state (DESIGN §4 C26, C27)."""
import hashlib
import json
import os
import struct
import tempfile

from sim import boot, crashfs
from sim.choice import Chooser
from sim.reactor import EPOCH

R = boot.install()

from allmydata.storage import server as ss_mod, immutable as imm_mod, mutable as mut_mod, crawler as cr_mod, expirer as ex_mod  # noqa: E402
from allmydata.storage.server import StorageServer                      # noqa: E402
from allmydata.storage.crawler import ShareCrawler                       # noqa: E402
from allmydata.storage.expirer import LeaseCheckingCrawler               # noqa: E402
from allmydata.storage.common import si_b2a, storage_index_to_dir        # noqa: E402
from allmydata.util import fileutil                                      # noqa: E402

import twisted.python.filepath as _fp_mod   # FilePath.open()/remove() write the crawler state files
MODS = [ss_mod, imm_mod, mut_mod, cr_mod, ex_mod, fileutil, _fp_mod]
DAY = 86400
LEASE = 31 * DAY


_SORTED = sorted(range(1024), key=lambda i: si_b2a(struct.pack(">H", i << 6))[:2])


def si_for(prefix_pos, j):
    """A 16-byte storage index living in the prefix directory at position prefix_pos of the
    crawler's (alphabetically sorted) prefix list."""
    tail = hashlib.sha256(b"crawl-%d-%d" % (prefix_pos, j)).digest()
    first = struct.pack(">H", (_SORTED[prefix_pos] << 6) | (tail[0] & 0x3F))
    return first + tail[1:15]


def secret(kind, i):
    return hashlib.sha256(b"%s-%d" % (kind.encode(), i)).digest()


# ------------------------------------------------------------------------------------------
# C27: coverage
# ------------------------------------------------------------------------------------------
class Obs(object):
    """What the harness observed, across incarnations of the crawler."""
    def __init__(self):
        self.visits = []        # (cycle, bucket, incarnation)
        self.started = []
        self.finished = []
        self.slices = 0
        self.point = 0          # running index of interruption points (bucket/prefix completions)
        self.burn_at = set()
        self.fired = 0
        self.incarnation = 0
        self.point_kinds = {}


def make_recorder(base_cls, obs, hook):
    class Recorder(base_cls):
        slow_start = 10
        minimum_cycle_time = 300

        def process_bucket(self, cycle, prefix, prefixdir, storage_index_b32):
            base_cls.process_bucket(self, cycle, prefix, prefixdir, storage_index_b32)
            obs.visits.append((cycle, storage_index_b32, obs.incarnation))
            self._point("bucket")

        def finished_prefix(self, cycle, prefix):
            base_cls.finished_prefix(self, cycle, prefix)
            self._point("prefix")

        def _point(self, kind):
            obs.point += 1
            obs.point_kinds[kind] = obs.point_kinds.get(kind, 0) + 1
            if obs.point in obs.burn_at:
                obs.fired += 1
                R._now += self.cpu_slice + 0.5     # the slice's CPU budget is used up here

        def started_cycle(self, cycle):
            base_cls.started_cycle(self, cycle)
            obs.started.append((cycle, obs.incarnation))

        def finished_cycle(self, cycle):
            base_cls.finished_cycle(self, cycle)
            obs.finished.append((cycle, obs.incarnation))

        def yielding(self, sleep_time):
            obs.slices += 1
            hook(self)
    return Recorder


def gen_cover_case(seed, tier):
    ch = Chooser(seed)
    nprefix = ch.pick("config", "nprefix", [4, 8, 16, 16, 1024])
    nb = ch.randint("config", "nb", 1, 6)
    used_prefixes = ch.randint("config", "np", 1, min(3, nb))
    pidx = sorted(ch.sample("config", "pidx", range(min(nprefix, 1024)), used_prefixes))
    buckets = [[pidx[j % used_prefixes], j] for j in range(nb)]
    return {"engine": "crawlsim", "seed": seed,
            "cfg": {"nprefix": nprefix, "crawler": ch.pick("config", "crawler", ["base", "lease", "lease"]),
                    "cycles": 2, "shares": ch.pick("config", "shares", ["imm", "mut", "both"])},
            "buckets": buckets,
            "ops": [],            # filled by plans: see execute_cover
            "plan": "enumerate"}


def build_tree(base, buckets, shares_kind):
    """Populate a share tree through the real server API."""
    R.reset_sim()
    ss = StorageServer(base, b"\x11" * 20, clock=R)
    ss.bucket_counter.disownServiceParent()
    ss.lease_checker.disownServiceParent()
    names = []
    for n, (p, j) in enumerate(buckets):
        si = si_for(p, j)
        kind = shares_kind if shares_kind != "both" else ("imm" if n % 2 == 0 else "mut")
        if kind == "imm":
            _, w = ss.allocate_buckets(si, secret("r", n), secret("c", n), {0}, 10)
            w[0].write(0, b"0123456789")
            w[0].close()
        else:
            ss.slot_testv_and_readv_and_writev(si, (secret("we", n), secret("r", n), secret("c", n)),
                                               {0: ([], [(0, b"mutable-data")], None)}, [])
        names.append(si_b2a(si).decode("ascii"))
    return names


def run_cover(case, plan, base):
    """plan: {'burn': [point indexes], 'restart_after_slice': [k..], 'kill_point': n or None,
              'kill_after_slice': k or None, 'add_remove': [...]}.
    Returns (violations, info)."""
    cfg = case["cfg"]
    viol = []
    names = build_tree(base, case["buckets"], cfg["shares"])
    present = set(names)
    obs = Obs()
    obs.burn_at = set(plan.get("burn", []))
    state = {"crawler": None, "pending_restart": False, "killed_cycles": set(), "restarts": 0, "kills": 0}
    ss = StorageServer(base, b"\x11" * 20, clock=R)
    ss.bucket_counter.disownServiceParent()
    ss.lease_checker.disownServiceParent()
    restart_after = set(plan.get("restart_after_slice", []))
    kill_after = plan.get("kill_after_slice")

    def hook(crawler):
        if obs.slices in restart_after:
            state["pending_restart"] = "graceful"
        if kill_after is not None and obs.slices == kill_after:
            state["pending_restart"] = "kill"

    base_cls = ShareCrawler if cfg["crawler"] == "base" else LeaseCheckingCrawler
    Rec = make_recorder(base_cls, obs, hook)
    statefile = os.path.join(base, "crawler.state")

    def new_crawler():
        obs.incarnation += 1
        if cfg["crawler"] == "base":
            c = Rec(ss, statefile)
        else:
            c = Rec(ss, statefile, os.path.join(base, "crawler.history"), False, "age", None, None, ("mutable", "immutable"))
        nprefix = cfg["nprefix"]
        if nprefix < 1024:
            # knob: crawl only the first nprefix prefixes (all buckets of the case live there)
            c.prefixes = c.prefixes[:nprefix]
            # a persisted last-complete-prefix always lies inside the list
        c.startService()
        return c

    crashfs.LAYER.reset()
    crashfs.install(MODS)
    try:
        crashfs.LAYER.crash_at = plan.get("kill_point")
        state["pending_restart"] = "initial"
        target = cfg["cycles"]
        steps = 0
        while steps < 5000:
            steps += 1
            done_cycles = set(c for (c, inc) in obs.finished)
            if len(done_cycles) >= target and not state["pending_restart"]:
                break
            try:
                if state["pending_restart"] == "initial":
                    state["pending_restart"] = False
                    state["crawler"] = new_crawler()
                    continue
                if state["pending_restart"] == "graceful":
                    state["pending_restart"] = False
                    state["restarts"] += 1
                    state["crawler"].stopService()
                    state["crawler"] = new_crawler()
                    continue
                if state["pending_restart"] == "kill":
                    raise crashfs.CrashNow("kill between slices")
                if not R.step():
                    break
            except crashfs.CrashNow:
                # the process dies here: timers gone, objects gone; the directory survives
                state["pending_restart"] = False
                state["kills"] += 1
                cst = state["crawler"].state if state["crawler"] is not None else {}
                cur = cst.get("current-cycle")
                lastf = cst.get("last-cycle-finished")
                for c in (cur, lastf, (lastf + 1) if lastf is not None else 0):
                    if c is not None:
                        state["killed_cycles"].add(c)
                R.drop_pending()
                crashfs.LAYER.reset()
                # the state file must be loadable (or absent)
                sp = statefile + ".json"
                if os.path.exists(sp):
                    try:
                        with open(sp, "rb") as f:
                            json.load(f)
                    except Exception as e:
                        viol.append({"clause": "C27.state-file-corrupt", "sig": "C27.state-file-corrupt",
                                     "detail": "after a kill the state file does not parse: %r" % (e,)})
                try:
                    state["crawler"] = new_crawler()
                except Exception as e:
                    viol.append({"clause": "C27.restart-fails", "sig": "C27.restart-fails.%s" % type(e).__name__,
                                 "detail": "crawler could not be re-created from its persisted state: %r" % (e,)})
                    break
            if R.errors:
                break
        if R.errors:
            viol.append({"clause": "C27.crawler-died", "sig": "C27.crawler-died.%s" % R.errors[0][1].strip().splitlines()[-1].split(":")[0],
                         "detail": "exception escaped the crawler's timer after %d restarts/%d kills (crawler=%s):\n%s" % (
                             state["restarts"], state["kills"], cfg["crawler"], R.errors[0][1][-1500:])})
            return viol, {"obs": obs, "state": state}
        done = sorted(set(c for (c, inc) in obs.finished))
        if len(done) < target:
            viol.append({"clause": "C27.no-progress", "sig": "C27.no-progress",
                         "detail": "only cycles %r finished (wanted %d) before quiescence/step cap; restarts=%d kills=%d" % (
                             done, target, state["restarts"], state["kills"])})
            return viol, {"obs": obs, "state": state}
        # cycle numbering
        seq = [c for (c, inc) in obs.finished]
        if not state["kills"]:
            if seq != list(range(len(seq))):
                viol.append({"clause": "C27.cycle-numbers", "sig": "C27.cycle-numbers",
                             "detail": "finished cycles %r are not 0,1,2,.. (no kill happened)" % (seq,)})
        else:
            ok = seq and seq[0] == 0 and all(0 <= b - a <= 1 for a, b in zip(seq, seq[1:]))
            if not ok:
                viol.append({"clause": "C27.cycle-numbers", "sig": "C27.cycle-numbers.kill",
                             "detail": "finished cycles %r skip or go backwards" % (seq,)})
        # coverage
        for c in done:
            counts = {}
            for (cy, b, inc) in obs.visits:
                if cy == c:
                    counts[b] = counts.get(b, 0) + 1
            for b in sorted(present):
                n = counts.get(b, 0)
                if n < 1:
                    viol.append({"clause": "C27.bucket-missed", "sig": "C27.bucket-missed",
                                 "detail": "cycle %d never processed bucket %s (plan %r)" % (c, b, plan)})
                elif n > 1 and c not in state["killed_cycles"]:
                    viol.append({"clause": "C27.bucket-repeated", "sig": "C27.bucket-repeated",
                                 "detail": "cycle %d processed bucket %s %d times without any kill (plan %r)" % (c, b, n, plan)})
        return viol, {"obs": obs, "state": state}
    finally:
        LAST_POINTS[0] = crashfs.LAYER.count
        crashfs.uninstall()
        crashfs.LAYER.reset()


LAST_POINTS = [0]   # kernel-visible mutations counted in the latest run_cover (this incarnation)


def execute_cover(case):
    from sim.runner import child_tmp
    root = tempfile.mkdtemp(dir=child_tmp())
    n = [0]

    def fresh():
        n[0] += 1
        d = os.path.join(root, "r%d" % n[0])
        os.makedirs(d)
        return d

    ch = Chooser(case["seed"])
    plans = []
    if case.get("plan") == "enumerate":
        v0, info0 = run_cover(case, {}, fresh())
        obs0 = info0["obs"]
        total_points = obs0.point
        per_cycle = total_points // max(1, case["cfg"]["cycles"])
        plans.append({})
        if v0:
            plans = [{}]
            pts = []
        elif per_cycle <= 64:
            pts = list(range(1, total_points + 1))            # every interruption point
        else:
            # 1024-prefix crawl: every bucket point + prefix points next to them + a seeded sample
            pts = sorted(set(ch.sample("faults", "pts", range(1, total_points + 1), 40)) | set(range(1, 12)) |
                         set(range(per_cycle - 3, per_cycle + 6)))
        for p in pts:
            plans.append({"burn": [p]})
        # multi-interruption patterns
        for j in range(6):
            k = ch.randint("faults", ("nburn", j), 2, min(8, max(2, total_points)))
            plans.append({"burn": sorted(ch.sample("faults", ("burn", j), range(1, total_points + 1), k))})
        # graceful restarts at slice boundaries, with interruptions
        for j in range(4):
            burn = sorted(ch.sample("faults", ("rburn", j), range(1, total_points + 1), min(total_points, 3)))
            plans.append({"burn": burn, "restart_after_slice": [ch.randint("faults", ("rs", j), 1, 4)]})
        # kills between slices
        for j in range(3):
            burn = sorted(ch.sample("faults", ("kburn", j), range(1, total_points + 1), min(total_points, 3)))
            plans.append({"burn": burn, "kill_after_slice": ch.randint("faults", ("ks", j), 1, 4)})
        # kills at every crashfs point of an interrupted crawl
        burn = sorted(ch.sample("faults", "cburn", range(1, total_points + 1), min(total_points, 2)))
        run_cover(case, {"burn": burn}, fresh())
        npoints = LAST_POINTS[0]
        for kp in range(1, npoints + 1):
            plans.append({"burn": burn, "kill_point": kp})
    else:
        plans = [case["plan"]]

    viol, digest, stats = [], hashlib.sha256(), {"interrupts": 0, "graceful-restart": 0, "kill": 0, "runs": 0}
    fps = set()
    for plan in plans:
        v, info = run_cover(case, plan, fresh())
        stats["runs"] += 1
        if "obs" in info:
            stats["interrupts"] += info["obs"].fired
            stats["graceful-restart"] += info["state"]["restarts"]
            stats["kill"] += info["state"]["kills"]
            digest.update(repr((sorted(plan.items()), info["obs"].visits, info["obs"].finished)).encode())
            fps.add(hashlib.sha256(repr(info["obs"].visits).encode()).hexdigest()[:12])
        for x in v:
            x["plan"] = plan
            viol.append(x)
    seen, out = set(), []
    for x in viol:
        if x["sig"] not in seen:
            seen.add(x["sig"])
            out.append(x)
    return {"violations": out[:5], "digest": digest.hexdigest(), "fingerprint": hashlib.sha256(repr(sorted(fps)).encode()).hexdigest()[:16],
            "nontrivial": stats["interrupts"] > 0, "events": stats["runs"], "sim_s": 0.0,
            "faults": {"time-slice-interrupt": stats["interrupts"], "graceful-restart": stats["graceful-restart"], "kill-restart": stats["kill"]},
            "probes": {"plans": len(plans), "distinct-visit-orders": len(fps)}}


def shrink_cover(case):
    return []


# ------------------------------------------------------------------------------------------
# C26: garbage collection
# ------------------------------------------------------------------------------------------
def gen_gc_case(seed, tier):
    ch = Chooser(seed)
    W = "workload"
    enabled = ch.chance("config", "enabled", 0.8)
    mode = ch.pick("config", "mode", ["age", "age-override", "cutoff-date"])
    override = ch.pick("config", "override", [1 * DAY, 10 * DAY, 31 * DAY, 50 * DAY]) if mode == "age-override" else None
    cutoff_age = ch.pick("config", "cutoff", [5 * DAY, 20 * DAY, 31 * DAY, 40 * DAY])
    sharetypes = ch.pick("config", "types", [["mutable", "immutable"], ["mutable", "immutable"], ["mutable"], ["immutable"], []])
    if mode == "age":
        limit = LEASE
    elif mode == "age-override":
        limit = override
    else:
        limit = cutoff_age
    nshares = ch.randint(W, "nshares", 1, 8)
    ages_menu = [limit - 2 * DAY, limit - 100, limit - 1, limit + 1, limit + 100, limit + 3 * DAY, 0, 1 * DAY, 70 * DAY, LEASE - 1, LEASE + 1]
    if mode == "cutoff-date":
        # a cut-off *date* means the UTC midnight that starts it: renewals spread over the day before and after that instant
        # (hours, not only seconds, away from it -- the distance a local-time reading of the date would move the cut-off)
        ages_menu += [limit + h * 3600 for h in (-9, -3, 1, 5, 9, 13, 15, 17, 19, 21, 22, 23, 25, 30, 36)]
    ages_menu = [a for a in ages_menu if a >= 0]
    events = []
    for s in range(nshares):
        kind = ch.pick(W, ("kind", s), ["imm", "mut"])
        bucket = ch.randrange(W, ("bucket", s), max(1, nshares // 2 + 1))
        nleases = ch.randint(W, ("nl", s), 1, 5)
        all_old = ch.chance(W, ("allold", s), 0.45)
        for l in range(nleases):
            if all_old:
                age = ch.pick(W, ("age", s, l), [a for a in ages_menu if a > limit])
            else:
                age = ch.pick(W, ("age", s, l), ages_menu)
            events.append([age, "lease" if l else "create", kind, bucket, s, l])
    # a lease can be renewed later: re-grant of an existing secret at a younger age
    for j in range(ch.randint(W, "nrenew", 0, 3)):
        e = ch.pick(W, ("rn", j), events)
        younger = [a for a in ages_menu if a < e[0]]
        if younger:
            events.append([ch.pick(W, ("rna", j), younger), "lease", e[2], e[3], e[4], e[5]])
    return {"engine": "crawlsim", "seed": seed,
            "cfg": {"enabled": enabled, "mode": mode, "override": override, "cutoff_age": cutoff_age, "sharetypes": sharetypes,
                    "cycles": ch.pick("config", "cycles", [1, 1, 2]),
                    # a slow disk: simulated seconds consumed per examined bucket (the crawler's time slice is 1 s, so
                    # the cycle then needs several slices), and all buckets crowded into few prefix directories
                    # the policy reaches the server through tahoe.cfg and the client's own option parsing, in a drawn spelling
                    "via_config": ch.chance("config", "via_config", 0.4),
                    # the process's local time zone while the configuration is read and the crawler runs (POSIX TZ strings:
                    # XST8 = 8 h west of UTC, XST-8 = 8 h east); the documented meaning of every option is in UTC
                    "tz": ch.pick("config", "tz", ["UTC", "UTC", "XST8", "XST-8", "XST-5:30", "XST11", "XST-13"]),
                    "spell_enabled": ch.pick("config", "spell", ["true", "True", "yes", "1", "on"] if enabled else ["false", "False", "no", "0", "off", None]),
                    "bucket_cost": ch.pick("config", "bucket_cost", [0, 0, 0.3, 0.6, 1.2]),
                    "nprefixes": ch.pick("config", "nprefixes", [1024, 1024, 1, 2])},
            "ops": events}


def execute_gc(case):
    from sim.runner import child_tmp
    base = tempfile.mkdtemp(dir=child_tmp())
    cfg = case["cfg"]
    R.reset_sim()
    viol = []
    horizon = max([e[0] for e in case["ops"]] + [0]) + DAY
    T = EPOCH + horizon              # the instant the crawler looks at the shares
    ss = StorageServer(base, b"\x22" * 20, clock=R)
    ss.bucket_counter.disownServiceParent()
    ss.lease_checker.disownServiceParent()
    # a share's creation must precede leases on it: order by age descending, creation first on ties;
    # a share whose "create" is younger than one of its leases gets created at the oldest age.
    first_age = {}
    for e in case["ops"]:
        first_age[e[4]] = max(first_age.get(e[4], 0), e[0])
    evs = []
    for e in case["ops"]:
        age, what, kind, bucket, s, l = e
        if what == "create":
            evs.append((first_age[s], 0, e))
        else:
            evs.append((age, 1, e))
    evs.sort(key=lambda x: (-x[0], x[1], x[2][4], x[2][5]))
    model = {}      # share s -> {"kind","bucket","shnum","leases": {secret_index: renew_time}}
    bucket_kind = {}
    CRAWL_DELAY = 360
    for (age, _, e) in evs:
        _, what, kind, bucket, s, l = e
        kind = bucket_kind.setdefault(bucket, kind)     # one container type per bucket
        now = T - age - CRAWL_DELAY
        if now > R.true_seconds():
            R._now = now
        now = R.true_seconds()
        R.note("%r" % (e,))
        si = si_for(bucket % cfg.get("nprefixes", 1024), 1000 + bucket)
        secidx = s * 10 + l
        if s not in model:
            shnum = len([m for m in model.values() if m["bucket"] == bucket])
            if kind == "imm":
                _, w = ss.allocate_buckets(si, secret("r", secidx), secret("c", secidx), {shnum}, 20)
                if shnum not in w:
                    continue
                w[shnum].write(0, b"x" * 20)
                w[shnum].close()
                # allocate_buckets also renews/adds this lease on the bucket's existing shares
                for m in model.values():
                    if m["bucket"] == bucket:
                        m["leases"][secidx] = now
            else:
                # writev renews leases only on the shares it names
                ss.slot_testv_and_readv_and_writev(si, (secret("we", bucket), secret("r", secidx), secret("c", secidx)),
                                                   {shnum: ([], [(0, b"y" * 20)], None)}, [])
            model[s] = {"kind": kind, "bucket": bucket, "shnum": shnum, "leases": {secidx: now}}
        else:
            ss.add_lease(si, secret("r", secidx), secret("c", secidx))
            for m in model.values():
                if m["bucket"] == bucket:
                    m["leases"][secidx] = max(m["leases"].get(secidx, 0), now)
    # --- crawl ----------------------------------------------------------------------------
    R._now = T - CRAWL_DELAY
    mode = "age" if cfg["mode"].startswith("age") else "cutoff-date"
    cutoff = int(T - cfg["cutoff_age"]) if mode == "cutoff-date" else None
    import time as _t
    old_tz = os.environ.get("TZ")
    if cfg.get("via_config") and cfg.get("tz"):
        os.environ["TZ"] = cfg["tz"]
        _t.tzset()
    try:
        return _execute_gc_rest(case, cfg, base, T, model, mode, cutoff, viol, CRAWL_DELAY)
    finally:
        if cfg.get("via_config") and cfg.get("tz"):
            if old_tz is None:
                os.environ.pop("TZ", None)
            else:
                os.environ["TZ"] = old_tz
            _t.tzset()


def _execute_gc_rest(case, cfg, base, T, model, mode, cutoff, viol, CRAWL_DELAY):
    if cfg.get("via_config"):
        # the production path: [storage] expire.* in tahoe.cfg -> _Client.get_anonymous_storage_server() -> StorageServer
        import time as _t
        from twisted.application import service
        from allmydata.node import config_from_string
        from allmydata.client import _Client
        lines = ["[storage]", "enabled = true", "storage_dir = %s" % base]
        if cfg.get("spell_enabled") is not None:
            lines.append("expire.enabled = %s" % cfg["spell_enabled"])
        lines.append("expire.mode = %s" % mode)
        if cfg["override"] is not None:
            lines.append("expire.override_lease_duration = %d days" % (cfg["override"] // DAY))
        if mode == "cutoff-date":
            # a calendar date: the cut-off is the UTC midnight that starts it
            day_ = _t.strftime("%Y-%m-%d", _t.gmtime(cutoff))
            cutoff = int(__import__("calendar").timegm(_t.strptime(day_, "%Y-%m-%d")))
            lines.append("expire.cutoff_date = %s" % day_)
        lines.append("expire.immutable = %s" % ("true" if "immutable" in cfg["sharetypes"] else "false"))
        lines.append("expire.mutable = %s" % ("true" if "mutable" in cfg["sharetypes"] else "false"))

        class _NodeStandIn(service.MultiService):
            STOREDIR = "storage"
            nodeid = b"\x22" * 20
            stats_provider = None

            def get_config(self_, *a, **kw):
                return self_.config.get_config(*a, **kw)
        node_ = _NodeStandIn()
        from allmydata import client as client_mod
        node_.config = config_from_string(os.path.join(base, "nodedir"), "client.port", "\n".join(lines) + "\n",
                                          _valid_config=client_mod._valid_config())
        ss2 = _Client.get_anonymous_storage_server(node_)
        probes_via_config = True
    else:
        probes_via_config = False
        ss2 = StorageServer(base, b"\x22" * 20, clock=R,
                            expiration_enabled=cfg["enabled"], expiration_mode=mode,
                            expiration_override_lease_duration=cfg["override"],
                            expiration_cutoff_date=cutoff,
                            expiration_sharetypes=tuple(cfg["sharetypes"]))
    ss2.bucket_counter.disownServiceParent()
    lc = ss2.lease_checker
    lc.disownServiceParent()
    probes = {}
    if probes_via_config:
        probes["policy-through-tahoe.cfg"] = 1
    cost = cfg.get("bucket_cost", 0)
    if cost:
        orig_pb = lc.process_bucket

        def slow_process_bucket(*a, **kw):
            r = orig_pb(*a, **kw)
            R._now += cost          # the disk was slow: this much of the time slice is gone
            probes["slow-bucket"] = probes.get("slow-bucket", 0) + 1
            return r
        lc.process_bucket = slow_process_bucket
    lc.startService()

    def expected(now):
        exp = {}
        for s, m in model.items():
            tname = "immutable" if m["kind"] == "imm" else "mutable"
            if mode == "age":
                limit = cfg["override"] if cfg["override"] is not None else LEASE
                lease_expired = [rt + limit < now for rt in m["leases"].values()]
                boundary = any(rt + limit == now for rt in m["leases"].values())
            else:
                lease_expired = [rt < cutoff for rt in m["leases"].values()]
                boundary = False
            exp[s] = (cfg["enabled"] and tname in cfg["sharetypes"] and all(lease_expired), boundary)
        return exp

    removed_total = 0
    for cyc in range(cfg["cycles"]):
        R.advance(CRAWL_DELAY if cyc == 0 else lc.minimum_cycle_time + 1)
        if R.errors:
            viol.append({"clause": "C26.crawler-died", "sig": "C26.crawler-died",
                         "detail": "exception escaped the lease crawler:\n" + R.errors[0][1][-1500:]})
            break
        st = lc.get_state()
        for _ in range(400):
            # a cycle that needs several time slices sleeps between them; give it simulated time (the next cycle cannot
            # start before minimum_cycle_time = 12 h)
            if st.get("last-cycle-finished") == cyc or R.errors:
                break
            R.advance(15)
            st = lc.get_state()
            probes["waited-for-multi-slice-cycle"] = probes.get("waited-for-multi-slice-cycle", 0) + 1
        if st.get("last-cycle-finished") != cyc:
            viol.append({"clause": "C26.cycle-not-finished", "sig": "C26.cycle-not-finished",
                         "detail": "after the crawl slot, last-cycle-finished=%r, expected %d" % (st.get("last-cycle-finished"), cyc)})
            break
        now = T if cyc == 0 else R.true_seconds()
        exp = expected(now)
        # with a slow disk the shares are examined over an interval, not at one instant: a lease whose verdict differs
        # between the start and the end of that interval is a boundary case (either outcome is right)
        exp_end = expected(R.true_seconds())
        exp_start = expected(now - 3 * CRAWL_DELAY)
        for s_ in exp:
            if exp_end[s_][0] != exp[s_][0] or exp_start[s_][0] != exp[s_][0]:
                exp[s_] = (exp[s_][0], True)
        removed = 0
        for s, m in sorted(model.items()):
            si = si_for(m["bucket"] % cfg.get("nprefixes", 1024), 1000 + m["bucket"])
            path = os.path.join(ss2.sharedir, storage_index_to_dir(si), "%d" % m["shnum"])
            exists = os.path.exists(path)
            must_delete, boundary = exp[s]
            if m.get("gone"):
                continue
            nl = len(m["leases"])
            tag = "%s.%s" % (cfg["mode"], m["kind"])
            if not cfg["enabled"] and not exists:
                viol.append({"clause": "C26.deleted-while-disabled", "sig": "C26.deleted-while-disabled",
                             "detail": "expiration disabled but share %d (%s) was deleted" % (s, m["kind"])})
            elif exists and must_delete and not boundary:
                viol.append({"clause": "C26.expired-share-kept", "sig": "C26.expired-share-kept." + tag,
                             "detail": "share %d (%s, %d leases renewed %r s before the crawl) has every lease expired under %r but survived cycle %d" % (
                                 s, m["kind"], nl, sorted(int(now - rt) for rt in m["leases"].values()), cfg, cyc)})
                probes["must-delete"] = probes.get("must-delete", 0) + 1
            elif not exists and not must_delete and not boundary:
                viol.append({"clause": "C26.live-share-deleted", "sig": "C26.live-share-deleted." + tag,
                             "detail": "share %d (%s, leases renewed %r s before the crawl) still has an unexpired lease or a protected type under %r but was deleted" % (
                                 s, m["kind"], sorted(int(now - rt) for rt in m["leases"].values()), cfg)})
            if not exists:
                m["gone"] = True
                removed += 1
                probes["deleted"] = probes.get("deleted", 0) + 1
            else:
                probes["kept"] = probes.get("kept", 0) + 1
                if must_delete:
                    probes["must-delete"] = probes.get("must-delete", 0) + 1
        hist = lc.get_state()["history"].get(str(cyc), {})
        actual = hist.get("space-recovered", {}).get("actual-shares")
        if actual is not None and actual != removed and not viol:
            viol.append({"clause": "C26.counter", "sig": "C26.counter",
                         "detail": "cycle %d: actual-shares counter %r but %d shares really disappeared" % (cyc, actual, removed)})
        removed_total += removed
    R.note(repr(sorted(cfg.items())) + repr(sorted((s, m.get("gone", False)) for s, m in model.items())))
    fp = hashlib.sha256(repr((cfg["enabled"], cfg["mode"], cfg["sharetypes"], sorted(probes.items()))).encode()).hexdigest()[:16]
    return {"violations": viol[:4], "digest": R.digest(), "fingerprint": fp, "nontrivial": len(model) >= 1 and bool(probes),
            "events": R.events, "sim_s": R.true_seconds() - EPOCH, "faults": {}, "probes": probes}
