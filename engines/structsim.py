"""structsim — stateful data structures driven by operation histories against reference models:
IncompleteHashTree (C35), Spans / DataSpans (C37).  (DESIGN §4 C35, C37)

There is no network, clock or fault here: the history dimension (order of validation calls, which
the downloader's server-answer order decides) is what is explored; C37 is reference-model
conformance only and says so."""
import hashlib

from sim import boot
from sim.choice import Chooser

boot.install()

from allmydata.hashtree import IncompleteHashTree, BadHashError, NotEnoughHashesError   # noqa: E402
from allmydata.util.spans import Spans, DataSpans                                        # noqa: E402
from oracles import refhash                                                               # noqa: E402


# ------------------------------------------------------------------------------------------
# C35
# ------------------------------------------------------------------------------------------
def gen_tree(seed, tier):
    ch = Chooser(seed)
    n = ch.pick("config", "leaves", [1, 2, 3, 4, 5, 6, 7, 8, 9, 13, 16, 17, 31, 32, 33, 64])
    ops = []
    for i in range(ch.randint("workload", "ncalls", 1, 20)):
        leaf = ch.randrange("workload", ("leaf", i), n)
        style = ch.weighted("workload", ("style", i), [("needed", 5), ("needed-forged-aux", 2), ("needed-forged-leaf", 2), ("needed-missing", 1.5),
                                                       ("random-subset", 2), ("all", 0.5), ("extra-garbage-index", 0.5),
                                                       ("random-subset-forged-leaf", 1.5), ("needed-resplit-pair", 1.5)])
        ops.append(["set", leaf, style, ch.randrange("workload", ("which", i), 1 << 30), ch.randrange("workload", ("order", i), 1 << 30),
                    ch.chance("workload", ("incl", i), 0.5)])
    return {"engine": "structsim", "seed": seed, "cfg": {"leaves": n, "datapat": ch.randint("config", "pat", 1, 1 << 30)}, "ops": ops}


def exec_tree(case):
    cfg = case["cfg"]
    n = cfg["leaves"]
    ch = Chooser(case["seed"])
    leaves = [hashlib.sha256(b"leaf-%d-%d" % (cfg["datapat"], i)).digest() for i in range(n)]
    ref = refhash.merkle_tree(leaves)           # complete tree, node 0 = root
    first_leaf = len(ref) // 2
    t = IncompleteHashTree(n)
    viol, probes = [], {}

    def probe(nm):
        probes[nm] = probes.get(nm, 0) + 1

    def bad(clause, detail):
        viol.append({"clause": "C35." + clause, "sig": "C35." + clause, "detail": detail})
    if len(t) != len(ref):
        bad("size", "IncompleteHashTree(%d) has %d nodes, complete tree has %d" % (n, len(t), len(ref)))
        return result(viol, probes, case, 0)
    t.set_hashes({0: ref[0]})
    # another reader in the same process has already validated the whole (genuine) tree: whatever the code remembers
    # from that must not help a forger
    t_other = IncompleteHashTree(n)
    t_other.set_hashes({0: ref[0]})
    t_other.set_hashes(dict(enumerate(ref)), leaves=dict(enumerate(leaves)))
    ncalls = 0
    for opi, (kind, leaf, style, which, order, include_leaf) in enumerate(case["ops"]):
        needed = sorted(t.needed_hashes(leaf, include_leaf=False))
        offered = {}
        forged = False
        missing = False
        if style.startswith("needed"):
            for i in needed:
                offered[i] = ref[i]
            if style == "needed-forged-aux" and needed:
                i = needed[which % len(needed)]
                offered[i] = hashlib.sha256(b"forged" + ref[i]).digest()
                forged = True
            if style == "needed-missing" and needed:
                del offered[needed[which % len(needed)]]
                missing = True
        elif style in ("random-subset", "random-subset-forged-leaf"):
            for i in range(len(ref)):
                if (which >> (i % 30)) & 1:
                    offered[i] = ref[i]
        elif style == "all":
            offered = dict(enumerate(ref))
        elif style == "extra-garbage-index":
            for i in needed:
                offered[i] = ref[i]
        leafval = leaves[leaf]
        if style == "needed-resplit-pair" and n >= 2:
            # the leaf and its sibling re-cut at another byte boundary: the same bytes in a row, two different values
            li = first_leaf + leaf
            sib = li + 1 if li % 2 == 1 else li - 1
            if sib < len(ref):
                cut = 1 + which % 31
                if li % 2 == 1:      # leaf is the left child: L+S -> (L + S[:cut], S[cut:])
                    leafval, offered[sib] = ref[li] + ref[sib][:cut], ref[sib][cut:]
                else:                # leaf is the right child: S+L -> (S[:-cut], S[-cut:] + L)
                    offered[sib], leafval = ref[sib][:-cut], ref[sib][-cut:] + ref[li]
                forged = True
        if style in ("needed-forged-leaf", "random-subset-forged-leaf"):
            # (the leaf may already be validated: the batch then contradicts a value the tree holds, while also
            # carrying genuine values for nodes it does not know yet)
            leafval = hashlib.sha256(b"forged-leaf" + leafval).digest()
            forged = True
        # insertion order of the dict is part of the history
        keys = list(offered)
        rot = order % (len(keys) or 1)
        keys = keys[rot:] + keys[:rot]
        if order & 1:
            keys.reverse()
        hashes = {i: offered[i] for i in keys}
        lv = {leaf: leafval} if (include_leaf or style.startswith("needed") or style == "random-subset-forged-leaf") else {}
        before = list(t)
        ncalls += 1
        try:
            if style == "extra-garbage-index":
                hashes[len(ref) + 3] = b"x" * 32
            t.set_hashes(hashes, leaves=lv)
            outcome = "ok"
        except BadHashError:
            outcome = "bad"
        except NotEnoughHashesError:
            outcome = "notenough"
        except IndexError:
            outcome = "index"
        except Exception as e:
            # not one of the documented rejections: callers (the downloader) do not catch it
            outcome = "error-" + type(e).__name__
            bad("unexpected-exception", "set_hashes raised %r instead of accepting or rejecting with BadHashError/NotEnoughHashesError/IndexError "
                "(leaf %d, style %s, n=%d)" % (e, leaf, style, n))
        probe("set-" + outcome)
        all_genuine = all(ref[i] == h for i, h in hashes.items() if i < len(ref)) and all(leaves[j] == h for j, h in lv.items())
        if outcome == "ok":
            if not all_genuine:
                bad("forged-accepted", "set_hashes accepted a value that differs from the tree that produced the root (leaf %d, style %s, n=%d)" % (leaf, style, n))
            for i, h in enumerate(t):
                if h is not None and h != ref[i]:
                    bad("wrong-node-stored", "node %d of the tree differs from the reference after a successful call" % i)
                    break
        else:
            if list(t) != before:
                bad("state-changed-on-reject", "a rejected set_hashes (%s) changed the tree's contents (leaf %d, style %s, n=%d)" % (outcome, leaf, style, n))
            if style == "needed" and lv and outcome != "ok":
                bad("genuine-rejected", "the genuine needed_hashes(%d) plus the genuine leaf were rejected (%s) with n=%d, key order %r" % (leaf, outcome, n, list(hashes)))
            if style == "extra-garbage-index":
                t2 = list(t)   # index errors must also leave the state unchanged (checked above)
    fp = hashlib.sha256(repr((n, sorted(probes.items()))).encode()).hexdigest()[:16]
    return result(viol, probes, case, ncalls, fp)


def result(viol, probes, case, n, fp=None):
    dg = hashlib.sha256(repr((case["seed"], sorted(probes.items()), [v["clause"] for v in viol])).encode()).hexdigest()
    return {"violations": viol[:3], "digest": dg, "fingerprint": fp or dg[:16], "nontrivial": n >= 2, "events": n, "sim_s": 0.0,
            "faults": {}, "probes": probes}


# ------------------------------------------------------------------------------------------
# C37
# ------------------------------------------------------------------------------------------
def gen_spans(seed, tier):
    ch = Chooser(seed)
    ops = []
    nops = ch.randint("workload", "nops", 5, 200)
    for i in range(nops):
        k = ch.weighted("workload", ("k", i), [("add", 6), ("remove", 4), ("and", 1), ("sub", 1), ("plus", 1), ("contains", 2), ("dadd", 6), ("dremove", 3),
                                               ("dget", 4), ("dpop", 3), ("iadd", 0.7), ("isub", 0.7), ("dreget", 2.5), ("doverlap", 1.5)])
        ops.append([k, ch.randrange("workload", ("s", i), 300), ch.pick("workload", ("l", i), [1, 1, 2, 3, 5, 10, 30, 100]),
                    ch.randrange("workload", ("x", i), 1 << 30)])
    return {"engine": "structsim", "seed": seed, "cfg": {}, "ops": ops}


def exec_spans(case):
    s = Spans()
    m = set()
    ds = DataSpans()
    dm = {}
    viol, probes = [], {}

    def probe(nm):
        probes[nm] = probes.get(nm, 0) + 1

    def bad(clause, detail):
        viol.append({"clause": "C37." + clause, "sig": "C37." + clause, "detail": detail})

    held = []       # results of earlier set operations and their reference sets: each is an object of its own

    def other_from(x):
        o, om = Spans(), set()
        if x % 5 == 0:
            return o, om                                  # nothing to add / subtract / intersect with
        if x % 7 == 0:
            return Spans(0, 400), set(range(400))         # covers the whole range in use
        for j in range(3):
            st = (x >> (j * 9)) % 300
            ln = 1 + (x >> (j * 7)) % 40
            o.add(st, ln)
            om |= set(range(st, st + ln))
        return o, om

    def check(why):
        if set(s.each()) != m or s.len() != len(m):
            bad("spans", "after %s the span set holds %d integers, the reference set %d" % (why, s.len(), len(m)))
        prev = None
        for (st, ln) in s:
            if ln <= 0 or (prev is not None and st <= prev):
                bad("spans-canonical", "spans not sorted/merged after %s: %s" % (why, s.dump()))
            prev = st + ln
        got = {}
        for (st, data) in ds.get_chunks():
            for j, b in enumerate(data):
                got[st + j] = b
        if got != dm or ds.len() != len(dm):
            bad("dataspans", "after %s the byte buffer holds %d bytes, the reference map %d (or contents differ)" % (why, ds.len(), len(dm)))
        for hi, (hr, hm) in enumerate(held):
            if set(hr.each()) != hm:
                bad("result-aliased", "after %s the result of an earlier set operation (held #%d) no longer equals its reference set: "
                    "it shares state with another object" % (why, hi))
                break
        if set(ds.get_spans().each()) != set(dm):
            bad("dataspans-spans", "get_spans() disagrees with the stored bytes after %s" % why)
        ds.assert_invariants()
    last_get = [None]
    for opi, (k, st, ln, x) in enumerate(case["ops"]):
        why = "op %d %r" % (opi, (k, st, ln))
        if k == "dreget":          # ask again for exactly the range asked for last (the downloader re-reads header fields)
            k = "dget"
            if last_get[0]:
                st, ln = last_get[0]
        elif k == "doverlap":      # new bytes over (part of) the range read last
            k = "dadd"
            if last_get[0]:
                st = last_get[0][0] + (x % max(1, last_get[0][1]))
        if k == "dget":
            last_get[0] = (st, ln)
        try:
            if k == "add":
                s.add(st, ln)
                m |= set(range(st, st + ln))
            elif k == "remove":
                s.remove(st, ln)
                m -= set(range(st, st + ln))
            elif k in ("and", "sub", "plus", "iadd", "isub"):
                o, om = other_from(x)
                if k == "and":
                    r = s & o
                    if set(r.each()) != (m & om):
                        bad("and", "intersection wrong at %s" % why)
                elif k == "sub":
                    r = s - o
                    if set(r.each()) != (m - om):
                        bad("sub", "difference wrong at %s" % why)
                elif k == "plus":
                    r = s + o
                    if set(r.each()) != (m | om):
                        bad("plus", "union wrong at %s" % why)
                elif k == "iadd":
                    s += o
                    m |= om
                else:
                    s -= o
                    m -= om
                if k in ("and", "sub", "plus"):
                    held.append((r, set(r.each())))
                    del held[:-3]
                    if x & 1 and held:
                        # the caller goes on to modify the result in place
                        hr, hm = held[(x >> 3) % len(held)]
                        if x & 2:
                            hr.add(st, ln)
                            hm |= set(range(st, st + ln))
                        else:
                            hr.remove(st, ln)
                            hm -= set(range(st, st + ln))
                        probe("held-result-mutated")
            elif k == "contains":
                got = (st, ln) in s
                want = all(i in m for i in range(st, st + ln))
                if got != want:
                    bad("contains", "(%d,%d) in spans = %s, reference %s" % (st, ln, got, want))
            elif k == "dadd":
                data = bytes(((x + j) * 31) & 0xFF for j in range(ln))
                ds.add(st, data)
                for j, b in enumerate(data):
                    dm[st + j] = b            # later writes win
            elif k == "dremove":
                ds.remove(st, ln)
                for j in range(st, st + ln):
                    dm.pop(j, None)
            elif k == "dget":
                got = ds.get(st, ln)
                want = bytes(dm[j] for j in range(st, st + ln)) if all(j in dm for j in range(st, st + ln)) else None
                if got != want:
                    bad("get", "get(%d,%d) returned %r, reference %r" % (st, ln, got, want))
            elif k == "dpop":
                got = ds.pop(st, ln)
                want = bytes(dm[j] for j in range(st, st + ln)) if all(j in dm for j in range(st, st + ln)) else None
                if got != want:
                    bad("pop", "pop(%d,%d) returned %r, reference %r" % (st, ln, got, want))
                if want is not None:
                    for j in range(st, st + ln):
                        dm.pop(j, None)
            probe(k)
            check(why)
        except AssertionError as e:
            bad("assertion", "internal assertion failed at %s: %r" % (why, e))
        if viol:
            break
    fp = hashlib.sha256(repr(sorted(probes.items())).encode()).hexdigest()[:16]
    return result(viol, probes, case, len(case["ops"]), fp)
