"""mutsim — mutable-file properties on gridsim (C09-C14, C47)."""
import hashlib
import os
import struct
import tempfile

from engines import gridsim
from engines.gridsim import R, Grid, run, settle, EPOCH
from engines.storesim import pat_bytes
from oracles import refhash
from sim.choice import Chooser
from sim.reactor import EventCap

from twisted.internet import defer
from twisted.python.failure import Failure

from allmydata.mutable import publish as publish_mod
from allmydata.mutable.publish import MutableData
from allmydata.mutable.common import UncoordinatedWriteError, NotEnoughServersError, MODE_READ, MODE_WRITE, MODE_CHECK
from allmydata.interfaces import SDMF_VERSION, MDMF_VERSION, NotEnoughSharesError
from allmydata.util import base32

_DEFAULT_SEG = publish_mod.DEFAULT_MUTABLE_MAX_SEGMENT_SIZE


def err_name(f):
    return f.type.__name__ if isinstance(f, Failure) else type(f).__name__


def err_site(f):
    """Exception class plus the innermost allmydata frame: a structural call-site signature."""
    if not isinstance(f, Failure):
        return type(f).__name__
    site = "?"
    try:
        tb = f.getTraceback()
        import re
        hits = re.findall(r"allmydata/([a-z_/]+)\.py[\", ]+line (\d+), in (\w+)", tb)
        if hits:
            site = "%s.%s" % (hits[-1][0].replace("/", "."), hits[-1][2])
        else:
            hits = re.findall(r"allmydata/([a-z_/]+)\.py:(\d+):(\w+)", tb)
            if hits:
                site = "%s.%s" % (hits[-1][0].replace("/", "."), hits[-1][2])
    except Exception:
        pass
    return "%s@%s" % (f.type.__name__, site)


# ------------------------------------------------------------------------------------------
# ground truth: what is on the servers' disks (independent of allmydata.mutable)
# ------------------------------------------------------------------------------------------
def parse_mutable_container(raw):
    """-> share data bytes (container header 468 bytes; data length at offset 84)."""
    if len(raw) < 468:
        return None
    (datalen,) = struct.unpack(">Q", raw[84:92])
    return raw[468:468 + datalen]


def share_version(data):
    """(format, seqnum, roothash) from the signed prefix, or None."""
    if data is None or len(data) < 41:
        return None
    ver = data[0]
    if ver not in (0, 1):
        return None
    (seq,) = struct.unpack(">Q", data[1:9])
    return (ver, seq, data[9:41])


def disk_state(servers, si):
    """{(server name, shnum): share data bytes}"""
    out = {}
    for s in servers:
        for shnum, raw in s.shares_of(si).items():
            out[(s.name, shnum)] = parse_mutable_container(raw)
    return out


def versions_on_disk(state):
    """{(fmt, seq, root): {shnum: set(server)}}"""
    out = {}
    for (srv, shnum), data in state.items():
        v = share_version(data)
        if v is not None:
            out.setdefault(v, {}).setdefault(shnum, set()).add(srv)
    return out


def si_of_cap(cap):
    """storage index from a mutable write/read cap string (independent derivation)."""
    import base64
    parts = cap.split(b":")

    def a2b(s):
        s = s.upper()
        s += b"=" * ((8 - len(s) % 8) % 8)
        return base64.b32decode(s)
    kind = parts[1]
    key = a2b(parts[2])
    if kind in (b"SSK", b"MDMF", b"DIR2", b"DIR2-MDMF"):
        readkey = refhash.ssk_readkey(key)
    else:
        readkey = key
    return refhash.ssk_storage_index(readkey)


# ------------------------------------------------------------------------------------------
def apply_knobs(kn):
    publish_mod.DEFAULT_MUTABLE_MAX_SEGMENT_SIZE = kn.get("mseg", _DEFAULT_SEG)


def gen_common(ch, tier, max_n=10):
    n = ch.pick("config", "n", [1, 2, 3, 4, 5, 7, 10])
    n = min(n, max_n)
    k = ch.randint("config", "k", 1, n)
    nservers = ch.randint("config", "nservers", max(1, min(n, 3)), 12)
    mseg = ch.pick("config", "mseg", [3 * k, 4 * k, 8 * k, 64, 100, 128 * 1024])
    return {"k": k, "n": n, "happy": 1, "nservers": nservers,
            "knobs": {"mseg": mseg},
            "net": {"lat_profile": ch.pick("config", "lat", ["uniform", "uniform", "heavy", "fifo"]),
                    "jitter": ch.pick("config", "jitter", [0.0005, 0.05, 0.5]), "base_lat": 0.001}}


def sizes_for(cfg):
    s = cfg["knobs"]["mseg"]
    if s > 4096:
        s = 64
    return [0, 1, 5, s - 1, s, s + 1, 2 * s, 2 * s + 1, 3 * s - 1, 4 * s, 4 * s + 1, 5 * s + 3, 8 * s, 8 * s + 1, 200]


def gen_single(seed, tier, focus):
    ch = Chooser(seed)
    cfg = gen_common(ch, tier)
    cfg["fmt"] = ch.pick("config", "fmt", ["SDMF", "MDMF", "MDMF"])
    W = "workload"
    sz = sizes_for(cfg)
    ops = [["create", ch.pick(W, "csize", sz), ch.randint(W, "cpat", 1, 1 << 30)]]
    nops = ch.randint(W, "nops", 1, 7)
    for i in range(nops):
        kind = ch.weighted(W, ("kind", i), [("overwrite", 2), ("modify", 2), ("update", 5), ("read", 2), ("readrange", 2)])
        if kind == "overwrite":
            ops.append(["overwrite", ch.pick(W, ("osize", i), sz), ch.randint(W, ("opat", i), 1, 1 << 30)])
        elif kind == "modify":
            ops.append(["modify", ch.pick(W, ("mkind", i), ["append", "prepend", "truncate-half", "same"]),
                        ch.pick(W, ("msize", i), [1, 7, 64, 150]), ch.randint(W, ("mpat", i), 1, 1 << 30)])
        elif kind == "update":
            ops.append(["update", ch.pick(W, ("uoffk", i), ["eof", "0", "seg", "seg-1", "seg+1", "mid", "last", "rand"]),
                        ch.randrange(W, ("uoffr", i), 1 << 20),
                        ch.pick(W, ("ulen", i), [0, 1, 2, 7] + sz[3:11]), ch.randint(W, ("upat", i), 1, 1 << 30)])
        elif kind == "read":
            ops.append(["read"])
        else:
            ops.append(["readrange", ch.randrange(W, ("roff", i), 1 << 20), ch.pick(W, ("rlen", i), [None, 0, 1, 17] + sz[3:9])])
    faults = []
    if focus == "C47":
        nf = ch.weighted("faults", "nf", [(0, 1), (1, 4), (2, 3), (3, 2)])
        for j in range(nf):
            faults.append([ch.pick("faults", ("kind", j), ["error", "disconnect_before", "disconnect_after", "stall", "error"]),
                           ch.randrange("faults", ("srv", j), cfg["nservers"]),
                           ch.pick("faults", ("meth", j), ["slot_testv_and_readv_and_writev", "slot_testv_and_readv_and_writev", "slot_readv"]),
                           ch.randint("faults", ("nth", j), 1, 6), ch.pick("faults", ("secs", j), [1.0, 30.0])])
    return {"engine": "mutsim", "profile": "single", "focus": focus, "seed": seed, "cfg": cfg, "ops": ops, "faults": faults}


class WireMonitor(object):
    """Observes every slot_testv_and_readv_and_writev on the simulated wire."""
    def __init__(self, grid, viol):
        self.grid, self.viol = grid, viol
        self.writes = []       # dict(caller, callee, si, secrets, tw, ok, n)
        grid.net.call_filter = self.on_call
        self.checked = 0

    def on_call(self, caller, callee, methname, args, kwargs, res):
        if methname == "slot_testv_and_readv_and_writev":
            ok = None
            if isinstance(res, tuple):
                ok = bool(res[0])
            self.writes.append({"caller": caller, "callee": callee, "si": args[0], "secrets": args[1], "tw": args[2],
                                "ok": ok, "n": R.events, "err": isinstance(res, Failure)})

    def check_secrets(self, writekey_by_si):
        """C17: write enabler and lease secrets on the wire == independent derivation."""
        g = self.grid
        for w in self.writes:
            c = [c for c in g.clients if c.sim_name == w["caller"]][0]
            s = g.server_by_name(w["callee"])
            with open(os.path.join(c.sim_dir, "private", "secret"), "rb") as f:
                lease_secret = base32.a2b(f.read().strip())
            we, renew, cancel = w["secrets"]
            self.checked += 1
            wk = writekey_by_si.get(w["si"])
            if wk is None:
                self.viol.append({"clause": "C17.mutable-storage-index", "sig": "C17.mutable-storage-index",
                                  "detail": "writev for a storage index that is not derived from any cap of this run"})
                continue
            if we != refhash.ssk_write_enabler(wk, s.tubid):
                self.viol.append({"clause": "C17.write-enabler", "sig": "C17.write-enabler",
                                  "detail": "write enabler sent to %s differs from the specified derivation" % w["callee"]})
            wr, wc = refhash.lease_secrets(lease_secret, w["si"], s.tubid)
            if (renew, cancel) != (wr, wc):
                self.viol.append({"clause": "C17.mutable-lease-secret", "sig": "C17.mutable-lease-secret",
                                  "detail": "lease secrets in writev to %s differ from the specified derivation" % w["callee"]})


def writekey_of_cap(cap):
    import base64
    p = cap.split(b":")[2].upper()
    p += b"=" * ((8 - len(p) % 8) % 8)
    return base64.b32decode(p)


def build_grid(case, base):
    cfg = case["cfg"]
    R.reset_sim()
    apply_knobs(cfg["knobs"])
    g = Grid(case["seed"], base, cfg["net"])
    for i in range(cfg["nservers"]):
        g.add_server()
    return g


def finish(g, viol, probes, case, props):
    fp = hashlib.sha256(repr((sorted(probes.items()), case["cfg"].get("k"), case["cfg"].get("n"), case["cfg"].get("fmt"),
                              sorted(g.net.fired.items()))).encode()).hexdigest()[:16]
    for nm in R.logged_errors:
        probes["logged-error-" + nm] = probes.get("logged-error-" + nm, 0) + 1
    if R.errors:
        viol.append({"clause": "%s.unhandled-error" % props[0], "sig": "%s.unhandled-error.%s" % (
            props[0], R.errors[0][1].strip().splitlines()[-1].split(":")[0]),
            "detail": "exception escaped into the reactor:\n" + R.errors[0][1][-1500:]})
    return {"violations": [v for v in viol if v["clause"].split(".")[0] in props][:4],
            "digest": R.digest(), "fingerprint": fp, "nontrivial": bool(probes),
            "events": R.events, "sim_s": R.true_seconds() - EPOCH, "faults": dict(g.net.fired), "probes": probes}


def exec_single(case):
    from sim.runner import child_tmp
    cfg = case["cfg"]
    focus = case["focus"]
    props = {"C09": ("C09",), "C47": ("C47",), "C17": ("C17",)}[focus]
    base = tempfile.mkdtemp(dir=child_tmp())
    viol, probes = [], {}

    def probe(nm, c=1):
        probes[nm] = probes.get(nm, 0) + c

    def bad(prop, clause, detail, sig=None):
        viol.append({"clause": "%s.%s" % (prop, clause), "sig": sig or "%s.%s" % (prop, clause), "detail": detail})

    g = build_grid(case, base)
    try:
        mon = WireMonitor(g, viol)
        k, n = cfg["k"], cfg["n"]
        w = g.add_client(k=k, happy=1, n=n, fmt=cfg["fmt"])
        rd = g.add_client(k=k, happy=1, n=n)
        model = None
        node = None
        cap = None
        si = None
        last_seq = 0
        version_images = {}
        for fl in case.get("faults", []):
            kind, srv, meth, nth, secs = fl
            if srv < len(g.servers):
                g.net.add_fault({"kind": kind, "callee": g.servers[srv].name, "caller": w.sim_name, "method": meth, "nth": nth, "secs": secs})

        def drive(d, what):
            try:
                st, res = run(d, 300_000)
            except EventCap:
                bad(focus, "livelock", "%s never quiesces" % what)
                return "cap", None
            if st == "hung":
                bad(focus, "hung", "%s never completed although the event queue drained (faults=%r)" % (what, case.get("faults")),
                    sig="%s.hung.%s" % (focus, what.split("(")[0]))
            return st, res

        def after_write(st, res, what, new_model):
            """C47 ground truth + model update after a write operation."""
            nonlocal model, last_seq
            settle(300_000)
            state = disk_state(g.servers, si) if si else {}
            vers = versions_on_disk(state)
            model_before = model
            if st == "ok":
                probe("write-ok")
                model = new_model
                if vers:
                    newest = max(vers, key=lambda v: v[1])
                    have = len(vers[newest])
                    if newest[1] <= last_seq and (isinstance(model_before, tuple) or bytes(model_before or b"") != bytes(new_model)):
                        bad("C11", "seqnum-not-increased", "%s succeeded but the highest sequence number on disk is %d (was %d)" % (what, newest[1], last_seq))
                    if have < k:
                        bad("C47", "success-without-k", "%s reported success but only %d distinct share numbers of the new version (seq %d) are on disk, k=%d (faults=%r)" % (
                            what, have, newest[1], k, case.get("faults")))
                    last_seq = max(last_seq, newest[1])
                    version_images[newest] = {kx: v for kx, v in state.items() if share_version(v) == newest}
                else:
                    bad("C47", "success-without-shares", "%s reported success but no share is on disk" % what)
            elif st == "err":
                probe("write-err-" + err_name(res))
                if not case.get("faults"):
                    bad(focus, "faultfree-write-failed", "%s failed without any injected fault: %s" % (what, res.getTraceback()[-700:]),
                        sig="%s.faultfree-write-failed.%s.%s" % (focus, what.split("(")[0], err_site(res)))
                # after a failed write the file holds the old or the new contents
                model = ("either", model, new_model)

        def expect_matches(data, what):
            nonlocal model
            if isinstance(model, tuple):
                cands = []

                def flat(m_):
                    if isinstance(m_, tuple):
                        for x in m_[1:]:
                            flat(x)
                    elif m_ is not None:
                        cands.append(m_)
                flat(model)
                if data in [bytes(c) for c in cands if c is not None]:
                    model = bytearray(data)
                    return True
                bad("C09", "contents-after-failed-write", "%s returned bytes that are neither the old nor the new contents" % what)
                model = bytearray(data)
                return False
            if data != bytes(model):
                from engines.immsim import first_diff
                bad("C09", "contents", "%s returned %d bytes, model has %d; first difference at %d (fmt=%s mseg=%d k=%d; ops=%r)" % (
                    what, len(data), len(model), first_diff(data, bytes(model)), cfg["fmt"], cfg["knobs"]["mseg"], k, case["ops"]))
                return False
            return True

        last_write = ["create"]
        for opi, op in enumerate(case["ops"]):
            kind = op[0]
            if kind in ("overwrite", "modify", "update"):
                last_write[0] = kind
            if kind == "create":
                data = pat_bytes(op[2], op[1])
                ver = MDMF_VERSION if cfg["fmt"] == "MDMF" else SDMF_VERSION
                st, res = drive(w.create_mutable_file(MutableData(data), version=ver), "create")
                if st != "ok":
                    if st == "err":
                        probe("create-err-" + err_name(res))
                        if not case.get("faults"):
                            bad(focus, "faultfree-create-failed", "create failed without faults: %s" % res.getTraceback()[-600:],
                                sig="%s.faultfree-create-failed.%s" % (focus, err_name(res)))
                    break
                node = res
                cap = node.get_uri()
                si = si_of_cap(cap)
                if node.get_storage_index() != si:
                    bad("C17", "mutable-si", "node's storage index differs from the specified derivation from its cap")
                after_write("ok", res, "create", bytearray(data))
                probe("create-" + cfg["fmt"])
                continue
            if node is None:
                break
            if isinstance(model, tuple) and kind in ("modify", "update", "readrange"):
                # resolve the ambiguity left by a failed write before building on it
                st, res = drive(rd.create_node_from_uri(cap).download_best_version(), "read")
                if st == "ok":
                    expect_matches(res, "read after failed write")
                if isinstance(model, tuple):
                    break
            if kind == "overwrite":
                data = pat_bytes(op[2], op[1])
                st, res = drive(node.overwrite(MutableData(data)), "overwrite")
                after_write(st, res, "overwrite(%d)" % len(data), bytearray(data))
            elif kind == "modify":
                mk, msz, mp = op[1], op[2], op[3]
                extra = pat_bytes(mp, msz)

                def modifier(old, servermap, first_time, mk=mk, extra=extra):
                    if mk == "append":
                        return old + extra
                    if mk == "prepend":
                        return extra + old
                    if mk == "truncate-half":
                        return old[:len(old) // 2]
                    return None if mk == "same" else old
                cur = bytes(model)
                newm = {"append": cur + extra, "prepend": extra + cur, "truncate-half": cur[:len(cur) // 2], "same": cur}[mk]
                st, res = drive(node.modify(modifier), "modify")
                if mk == "same" and st == "ok":
                    probe("modify-noop")
                    continue
                after_write(st, res, "modify(%s)" % mk, bytearray(newm))
            elif kind == "update":
                offk, offr, ln, up = op[1], op[2], op[3], op[4]
                size = len(model)
                seg = cfg["knobs"]["mseg"] if cfg["knobs"]["mseg"] <= 4096 else 64
                off = {"eof": size, "0": 0, "seg": seg, "seg-1": seg - 1, "seg+1": seg + 1, "mid": size // 2,
                       "last": max(0, size - 1), "rand": offr % (size + 1)}[offk]
                off = min(off, size)
                data = pat_bytes(up, ln)
                st, mv = drive(node.get_best_mutable_version(), "get_best_mutable_version")
                if st != "ok":
                    if st == "err" and not case.get("faults"):
                        bad(focus, "faultfree-mapupdate-failed", "get_best_mutable_version failed without faults: %s" % err_name(mv))
                    break
                newm = bytearray(model)
                newm[off:off + len(data)] = data
                st, res = drive(mv.update(MutableData(data), off), "update")
                probe("update-" + ("append" if off == size else "inplace") + ("-multi" if size > seg else ""))
                after_write(st, res, "update(off=%d,len=%d) on size %d" % (off, len(data), size), newm)
            elif kind == "read":
                st, res = drive(rd.create_node_from_uri(cap).download_best_version(), "read")
                if st == "ok":
                    expect_matches(res, "download_best_version via a second client")
                    probe("read-ok")
                elif st == "err":
                    probe("read-err-" + err_name(res))
                    if not case.get("faults"):
                        bad("C09", "faultfree-read-failed", "read failed without faults after ops %r: %s" % (case["ops"][:opi], res.getTraceback()[-600:]),
                            sig="C09.faultfree-read-failed.after-%s.%s" % (last_write[0], err_site(res)))
            elif kind == "readrange":
                from engines.immsim import RecConsumer
                roff, rlen = op[1], op[2]
                size = len(model)
                # C09 promises no clipping for mutable range reads (IReadable leaves it open and the web
                # front end clips before calling), so ranges are generated in bounds
                roff = roff % (size + 1)
                if rlen is not None:
                    rlen = min(rlen, size - roff)
                ro_cap = node.get_readonly_uri()
                st, v = drive(rd.create_node_from_uri(ro_cap).get_best_readable_version(), "get_best_readable_version")
                if st != "ok":
                    continue
                cons = RecConsumer("mr%d" % opi)
                st, res = drive(v.read(cons, roff, rlen), "version.read")
                want = bytes(model[roff:]) if rlen is None else bytes(model[roff:roff + rlen])
                if st == "ok":
                    probe("readrange-ok")
                    if cons.data() != want:
                        bad("C09", "range", "read(offset=%d,size=%r) on size %d returned %d bytes, expected %d (fmt=%s mseg=%d)" % (
                            roff, rlen, size, len(cons.data()), len(want), cfg["fmt"], cfg["knobs"]["mseg"]))
                elif st == "err" and not case.get("faults"):
                    bad("C09", "faultfree-range-failed", "range read(offset=%d,size=%r) on size %d failed: %s" % (roff, rlen, size, res.getTraceback()[-500:]),
                        sig="C09.faultfree-range-failed." + err_name(res))
            if viol:
                break
        # final read-back
        if node is not None and not viol:
            st, res = drive(rd.create_node_from_uri(cap).download_best_version(), "final read")
            if st == "ok":
                expect_matches(res, "final download_best_version")
            elif st == "err" and not case.get("faults"):
                bad("C09", "faultfree-read-failed", "final read failed after ops %r: %s" % (case["ops"], res.getTraceback()[-600:]),
                    sig="C09.faultfree-read-failed.after-%s.%s" % (last_write[0], err_site(res)))
        if cap is not None:
            mon.check_secrets({si: writekey_of_cap(cap)})
            probe("writev-observed", len(mon.writes))
        return finish(g, viol, probes, case, props + (("C11",) if focus == "C09" else ()))
    finally:
        g.close()
