"""mutsim — mutable-file properties on gridsim (C09-C14, C47)."""
import hashlib
import os
import struct
import tempfile

from engines import gridsim
from engines.gridsim import R, Grid, run, settle, EPOCH
from engines.storesim import pat_bytes
from oracles import refhash
from sim.choice import Chooser
from sim.reactor import EventCap

from twisted.internet import defer
from twisted.python.failure import Failure

from allmydata.mutable import publish as publish_mod
from allmydata.mutable.publish import MutableData
from allmydata.mutable.common import UncoordinatedWriteError, NotEnoughServersError, MODE_READ, MODE_WRITE, MODE_CHECK
from allmydata.interfaces import SDMF_VERSION, MDMF_VERSION, NotEnoughSharesError
from allmydata.util import base32

_DEFAULT_SEG = publish_mod.DEFAULT_MUTABLE_MAX_SEGMENT_SIZE


def err_name(f):
    return f.type.__name__ if isinstance(f, Failure) else type(f).__name__


def err_site(f):
    """Exception class plus the innermost allmydata frame: a structural call-site signature."""
    if not isinstance(f, Failure):
        return type(f).__name__
    site = "?"
    try:
        tb = f.getTraceback()
        import re
        hits = re.findall(r"allmydata/([a-z_/]+)\.py[\", ]+line (\d+), in (\w+)", tb)
        if hits:
            site = "%s.%s" % (hits[-1][0].replace("/", "."), hits[-1][2])
        else:
            hits = re.findall(r"allmydata/([a-z_/]+)\.py:(\d+):(\w+)", tb)
            if hits:
                site = "%s.%s" % (hits[-1][0].replace("/", "."), hits[-1][2])
    except Exception:
        pass
    return "%s@%s" % (f.type.__name__, site)


# ------------------------------------------------------------------------------------------
# ground truth: what is on the servers' disks (independent of allmydata.mutable)
# ------------------------------------------------------------------------------------------
def parse_mutable_container(raw):
    """-> share data bytes (container header 468 bytes; data length at offset 84)."""
    if len(raw) < 468:
        return None
    (datalen,) = struct.unpack(">Q", raw[84:92])
    return raw[468:468 + datalen]


def dup_image_for_server(own_raw, other_raw):
    """A container for this server holding the share data of `other_raw`: the header of `own_raw` (this server's
    write enabler and leases), the other share's data, an empty extra-lease area."""
    data = parse_mutable_container(other_raw)
    return (own_raw[:84] + struct.pack(">Q", len(data)) + struct.pack(">Q", 468 + len(data)) + own_raw[100:468]
            + data + b"\x00\x00\x00\x00")


def share_version(data):
    """(format, seqnum, roothash) from the signed prefix, or None."""
    if data is None or len(data) < 41:
        return None
    ver = data[0]
    if ver not in (0, 1):
        return None
    (seq,) = struct.unpack(">Q", data[1:9])
    return (ver, seq, data[9:41])


def disk_state(servers, si):
    """{(server name, shnum): share data bytes}"""
    out = {}
    for s in servers:
        for shnum, raw in s.shares_of(si).items():
            out[(s.name, shnum)] = parse_mutable_container(raw)
    return out


def versions_on_disk(state):
    """{(fmt, seq, root): {shnum: set(server)}}"""
    out = {}
    for (srv, shnum), data in state.items():
        v = share_version(data)
        if v is not None:
            out.setdefault(v, {}).setdefault(shnum, set()).add(srv)
    return out


def si_of_cap(cap):
    """storage index from a mutable write/read cap string (independent derivation)."""
    import base64
    parts = cap.split(b":")

    def a2b(s):
        s = s.upper()
        s += b"=" * ((8 - len(s) % 8) % 8)
        return base64.b32decode(s)
    kind = parts[1]
    key = a2b(parts[2])
    if kind in (b"SSK", b"MDMF", b"DIR2", b"DIR2-MDMF"):
        readkey = refhash.ssk_readkey(key)
    else:
        readkey = key
    return refhash.ssk_storage_index(readkey)


# ------------------------------------------------------------------------------------------
def apply_knobs(kn):
    publish_mod.DEFAULT_MUTABLE_MAX_SEGMENT_SIZE = kn.get("mseg", _DEFAULT_SEG)


def gen_common(ch, tier, max_n=10):
    n = ch.pick("config", "n", [1, 2, 3, 4, 5, 7, 10])
    n = min(n, max_n)
    k = ch.randint("config", "k", 1, n)
    nservers = ch.randint("config", "nservers", max(1, min(n, 3)), 12)
    mseg = ch.pick("config", "mseg", [3 * k, 4 * k, 8 * k, 64, 100, 128 * 1024])
    return {"k": k, "n": n, "happy": 1, "nservers": nservers,
            "knobs": {"mseg": mseg},
            "net": {"threads": ch.pick("config", "threads", ["sync", "sync", "async"]), "lat_profile": ch.pick("config", "lat", ["uniform", "uniform", "heavy", "fifo"]),
                    "jitter": ch.pick("config", "jitter", [0.0005, 0.05, 0.5]), "base_lat": 0.001,
                    "batch": ch.pick("config", "batch", [0, 0, 0, 0.001, 0.02, 0.3])}}


def sizes_for(cfg):
    s = cfg["knobs"]["mseg"]
    if s > 4096:
        s = 64
    return [0, 1, 5, s - 1, s, s + 1, 2 * s, 2 * s + 1, 3 * s - 1, 4 * s, 4 * s + 1, 5 * s + 3, 8 * s, 8 * s + 1, 200]


def gen_single(seed, tier, focus):
    ch = Chooser(seed)
    cfg = gen_common(ch, tier)
    cfg["fmt"] = ch.pick("config", "fmt", ["SDMF", "MDMF", "MDMF"])
    W = "workload"
    sz = sizes_for(cfg)
    ops = [["create", ch.pick(W, "csize", sz), ch.randint(W, "cpat", 1, 1 << 30)]]
    nops = ch.randint(W, "nops", 1, 7)
    for i in range(nops):
        kind = ch.weighted(W, ("kind", i), [("overwrite", 2), ("modify", 2), ("update", 5), ("read", 2), ("readrange", 2)])
        if kind == "overwrite":
            ops.append(["overwrite", ch.pick(W, ("osize", i), sz), ch.randint(W, ("opat", i), 1, 1 << 30)])
        elif kind == "modify":
            ops.append(["modify", ch.pick(W, ("mkind", i), ["append", "prepend", "truncate-half", "same"]),
                        ch.pick(W, ("msize", i), [1, 7, 64, 150]), ch.randint(W, ("mpat", i), 1, 1 << 30)])
        elif kind == "update":
            ops.append(["update", ch.pick(W, ("uoffk", i), ["eof", "0", "seg", "seg-1", "seg+1", "mid", "last", "rand"]),
                        ch.randrange(W, ("uoffr", i), 1 << 20),
                        ch.pick(W, ("ulen", i), [0, 1, 2, 7] + sz[3:11]), ch.randint(W, ("upat", i), 1, 1 << 30)])
        elif kind == "read":
            ops.append(["read"])
        else:
            ops.append(["readrange", ch.randrange(W, ("roff", i), 1 << 20), ch.pick(W, ("rlen", i), [None, 0, 1, 17] + sz[3:9])])
    if focus == "C17":
        # the same client creates other mutable files first: per-file secrets must not carry over from one file to the next
        cfg["precreate"] = ch.pick("config", "precreate", [0, 1, 2, 2])
    faults = []
    if focus == "C47":
        nf = ch.weighted("faults", "nf", [(0, 1), (1, 4), (2, 3), (3, 2)])
        for j in range(nf):
            faults.append([ch.pick("faults", ("kind", j), ["error", "disconnect_before", "disconnect_after", "stall", "error"]),
                           ch.randrange("faults", ("srv", j), cfg["nservers"]),
                           ch.pick("faults", ("meth", j), ["slot_testv_and_readv_and_writev", "slot_testv_and_readv_and_writev", "slot_readv"]),
                           ch.randint("faults", ("nth", j), 1, 6), ch.pick("faults", ("secs", j), [1.0, 30.0])])
    if focus == "C47" and ch.chance("faults", "dup-layout", 0.35):
        # a share number that sits on two servers (its holder was away during a publish, the share was re-homed, the old
        # holder came back), and several servers whose writes fail from some point on: the writers that survive may then
        # be many while the distinct share numbers they cover are few
        at = ch.randint("faults", "dup-at", 1, len(ops))
        ndup = ch.randint("faults", "ndup", 1, max(1, cfg["n"] - 1))
        ops.insert(at, ["dup", [[ch.randrange("faults", ("dup-a", j), cfg["n"]), ch.randrange("faults", ("dup-b", j), cfg["n"])] for j in range(ndup)]])
        ops.insert(at + 1, ["overwrite", ch.pick(W, "dup-osize", sz), ch.randint(W, "dup-opat", 1, 1 << 30)])
        for j, srv in enumerate(ch.sample("faults", "broken", range(cfg["nservers"]), ch.randint("faults", "nbroken", 1, max(1, cfg["nservers"] - 1)))):
            faults.append(["error", srv, "slot_testv_and_readv_and_writev", ch.randint("faults", ("broken-from", j), 2, 4), 1.0, True])
    return {"engine": "mutsim", "profile": "single", "focus": focus, "seed": seed, "cfg": cfg, "ops": ops, "faults": faults}


class WireMonitor(object):
    """Observes every slot_testv_and_readv_and_writev on the simulated wire."""
    def __init__(self, grid, viol):
        self.grid, self.viol = grid, viol
        self.writes = []       # dict(caller, callee, si, secrets, tw, ok, n)
        grid.net.call_filter = self.on_call
        self.checked = 0

    def on_call(self, caller, callee, methname, args, kwargs, res):
        if methname == "slot_testv_and_readv_and_writev":
            ok = None
            if isinstance(res, tuple):
                ok = bool(res[0])
            self.writes.append({"caller": caller, "callee": callee, "si": args[0], "secrets": args[1], "tw": args[2],
                                "ok": ok, "n": R.events, "err": isinstance(res, Failure), "res": res})

    def check_secrets(self, writekey_by_si):
        """C17: write enabler and lease secrets on the wire == independent derivation."""
        g = self.grid
        for w in self.writes:
            c = [c for c in g.clients if c.sim_name == w["caller"]][0]
            s = g.server_by_name(w["callee"])
            with open(os.path.join(c.sim_dir, "private", "secret"), "rb") as f:
                lease_secret = base32.a2b(f.read().strip())
            we, renew, cancel = w["secrets"]
            self.checked += 1
            wk = writekey_by_si.get(w["si"])
            if wk is None:
                self.viol.append({"clause": "C17.mutable-storage-index", "sig": "C17.mutable-storage-index",
                                  "detail": "writev for a storage index that is not derived from any cap of this run"})
                continue
            if we != refhash.ssk_write_enabler(wk, s.tubid):
                self.viol.append({"clause": "C17.write-enabler", "sig": "C17.write-enabler",
                                  "detail": "write enabler sent to %s differs from the specified derivation" % w["callee"]})
            wr, wc = refhash.lease_secrets(lease_secret, w["si"], s.tubid)
            if (renew, cancel) != (wr, wc):
                self.viol.append({"clause": "C17.mutable-lease-secret", "sig": "C17.mutable-lease-secret",
                                  "detail": "lease secrets in writev to %s differ from the specified derivation" % w["callee"]})


def writekey_of_cap(cap):
    import base64
    p = cap.split(b":")[2].upper()
    p += b"=" * ((8 - len(p) % 8) % 8)
    return base64.b32decode(p)


def build_grid(case, base):
    cfg = case["cfg"]
    R.reset_sim()
    apply_knobs(cfg["knobs"])
    from engines import immsim as _immsim
    _immsim.apply_knobs({})        # (a check may run other engines in the same process: their knobs must not carry over)
    g = Grid(case["seed"], base, cfg["net"])
    for i in range(cfg["nservers"]):
        g.add_server()
    return g


def finish(g, viol, probes, case, props):
    fp = hashlib.sha256(repr((sorted(probes.items()), case["cfg"].get("k"), case["cfg"].get("n"), case["cfg"].get("fmt"),
                              sorted(g.net.fired.items()))).encode()).hexdigest()[:16]
    for nm in R.logged_errors:
        probes["logged-error-" + nm] = probes.get("logged-error-" + nm, 0) + 1
    if R.errors:
        viol.append({"clause": "%s.unhandled-error" % props[0], "sig": "%s.unhandled-error.%s" % (
            props[0], R.errors[0][1].strip().splitlines()[-1].split(":")[0]),
            "detail": "exception escaped into the reactor:\n" + R.errors[0][1][-1500:]})
    return {"violations": [v for v in viol if v["clause"].split(".")[0] in props][:4],
            "digest": R.digest(), "fingerprint": fp, "nontrivial": bool(probes),
            "events": R.events, "sim_s": R.true_seconds() - EPOCH, "faults": dict(g.net.fired), "probes": probes}


def exec_single(case):
    from sim.runner import child_tmp
    cfg = case["cfg"]
    focus = case["focus"]
    props = {"C09": ("C09",), "C47": ("C47",), "C17": ("C17",)}[focus]
    base = tempfile.mkdtemp(dir=child_tmp())
    viol, probes = [], {}

    def probe(nm, c=1):
        probes[nm] = probes.get(nm, 0) + c

    def bad(prop, clause, detail, sig=None):
        viol.append({"clause": "%s.%s" % (prop, clause), "sig": sig or "%s.%s" % (prop, clause), "detail": detail})

    g = build_grid(case, base)
    try:
        mon = WireMonitor(g, viol)
        k, n = cfg["k"], cfg["n"]
        w = g.add_client(k=k, happy=1, n=n, fmt=cfg["fmt"])
        rd = g.add_client(k=k, happy=1, n=n)
        model = None
        node = None
        cap = None
        si = None
        last_seq = 0
        version_images = {}
        for fl in case.get("faults", []):
            kind, srv, meth, nth, secs = fl[:5]
            if srv < len(g.servers):
                g.net.add_fault({"kind": kind, "callee": g.servers[srv].name, "caller": w.sim_name, "method": meth, "nth": nth, "secs": secs,
                                 "every": bool(len(fl) > 5 and fl[5])})

        def drive(d, what):
            try:
                st, res = run(d, 300_000)
            except EventCap:
                bad(focus, "livelock", "%s never quiesces" % what)
                return "cap", None
            if st == "hung":
                bad(focus, "hung", "%s never completed although the event queue drained (faults=%r)" % (what, case.get("faults")),
                    sig="%s.hung.%s" % (focus, what.split("(")[0]))
            return st, res

        writes_seen = [0]

        def after_write(st, res, what, new_model):
            """C47 ground truth + model update after a write operation."""
            nonlocal model, last_seq
            settle(300_000)
            state = disk_state(g.servers, si) if si else {}
            vers = versions_on_disk(state)
            model_before = model
            # which version did *this* operation send to the servers?  (sequence numbers in the offset-0 write vectors of
            # its own slot_testv_and_readv_and_writev calls; operations are sequential and the queue was drained)
            mine = mon.writes[writes_seen[0]:]
            writes_seen[0] = len(mon.writes)
            wrote_seqs = set()
            wrote_versions = set()
            for wv in mine:
                for shnum, (testv, writev, newlen) in wv["tw"].items():
                    for (woff, wdata) in writev:
                        if woff == 0 and len(wdata) >= 9 and wdata[0] in (0, 1):
                            wrote_seqs.add(struct.unpack(">Q", wdata[1:9])[0])
                            if len(wdata) >= 41:
                                wrote_versions.add(share_version(wdata))
            if st == "ok" and not mine:
                # success without any write on the wire (e.g. a zero-length update): nothing was published, so C47 has
                # nothing to say; the contents are still checked by the read-back (C09)
                probe("write-ok-nothing-published")
                model = new_model
            elif st == "ok":
                probe("write-ok")
                model = new_model
                if vers:
                    newest = max(vers, key=lambda v: v[1])
                    if wrote_seqs:
                        # the version this operation published, not a higher-numbered leftover of an earlier failed write
                        # (told apart by root hash as well: a failed earlier write may have left shares with the same number)
                        cands = [v for v in vers if v[1] == max(wrote_seqs) and (not wrote_versions or v in wrote_versions)]
                        newest = max(cands, key=lambda v: len(vers[v])) if cands else (None, max(wrote_seqs), None)
                    have = len(vers.get(newest, ()))
                    if newest[1] <= last_seq and (isinstance(model_before, tuple) or bytes(model_before or b"") != bytes(new_model)):
                        bad("C11", "seqnum-not-increased", "%s succeeded but the highest sequence number on disk is %d (was %d)" % (what, newest[1], last_seq))
                    if have < k:
                        bad("C47", "success-without-k", "%s reported success but only %d distinct share numbers of the new version (seq %d) are on disk, k=%d (faults=%r)" % (
                            what, have, newest[1], k, case.get("faults")))
                    last_seq = max(last_seq, newest[1])
                    version_images[newest] = {kx: v for kx, v in state.items() if share_version(v) == newest}
                else:
                    bad("C47", "success-without-shares", "%s reported success but no share is on disk" % what)
            elif st == "err":
                probe("write-err-" + err_name(res))
                if not case.get("faults"):
                    bad(focus, "faultfree-write-failed", "%s failed without any injected fault: %s" % (what, res.getTraceback()[-700:]),
                        sig="%s.faultfree-write-failed.%s.%s" % (focus, what.split("(")[0], err_site(res)))
                # after a failed write the file holds the old or the new contents
                model = ("either", model, new_model)

        def expect_matches(data, what):
            nonlocal model
            if isinstance(model, tuple):
                cands = []

                def flat(m_):
                    if isinstance(m_, tuple):
                        for x in m_[1:]:
                            flat(x)
                    elif m_ is not None:
                        cands.append(m_)
                flat(model)
                if data in [bytes(c) for c in cands if c is not None]:
                    model = bytearray(data)
                    return True
                bad("C09", "contents-after-failed-write", "%s returned bytes that are neither the old nor the new contents" % what)
                model = bytearray(data)
                return False
            if data != bytes(model):
                from engines.immsim import first_diff
                bad("C09", "contents", "%s returned %d bytes, model has %d; first difference at %d (fmt=%s mseg=%d k=%d; ops=%r)" % (
                    what, len(data), len(model), first_diff(data, bytes(model)), cfg["fmt"], cfg["knobs"]["mseg"], k, case["ops"]))
                return False
            return True

        last_write = ["create"]
        other_caps = []
        for j in range(cfg.get("precreate", 0)):
            st, res = drive(w.create_mutable_file(MutableData(b"an earlier file %d" % j), version=[SDMF_VERSION, MDMF_VERSION][j % 2]), "precreate")
            if st == "ok":
                other_caps.append(res.get_uri())
                if res.get_storage_index() != si_of_cap(res.get_uri()):
                    bad("C17", "mutable-si", "node's storage index differs from the specified derivation from its cap")
                probe("precreated")
            settle(300_000)
            writes_seen[0] = len(mon.writes)
        for opi, op in enumerate(case["ops"]):
            kind = op[0]
            if kind in ("overwrite", "modify", "update"):
                last_write[0] = kind
            if kind == "create":
                data = pat_bytes(op[2], op[1])
                ver = MDMF_VERSION if cfg["fmt"] == "MDMF" else SDMF_VERSION
                st, res = drive(w.create_mutable_file(MutableData(data), version=ver), "create")
                if st != "ok":
                    if st == "err":
                        probe("create-err-" + err_name(res))
                        if not case.get("faults"):
                            bad(focus, "faultfree-create-failed", "create failed without faults: %s" % res.getTraceback()[-600:],
                                sig="%s.faultfree-create-failed.%s" % (focus, err_name(res)))
                    break
                node = res
                cap = node.get_uri()
                si = si_of_cap(cap)
                if node.get_storage_index() != si:
                    bad("C17", "mutable-si", "node's storage index differs from the specified derivation from its cap")
                after_write("ok", res, "create", bytearray(data))
                probe("create-" + cfg["fmt"])
                continue
            if node is None:
                break
            if kind == "dup":
                for (a_, b_) in op[1]:
                    holders_a = [s_ for s_ in g.servers if a_ in s_.shares_of(si)]
                    holders_b = [s_ for s_ in g.servers if b_ in s_.shares_of(si) and a_ not in s_.shares_of(si)]
                    if a_ != b_ and holders_a and holders_b:
                        tgt = holders_b[0]
                        with open(tgt.share_path(si, a_), "wb") as f:
                            f.write(dup_image_for_server(tgt.shares_of(si)[b_], holders_a[0].shares_of(si)[a_]))
                        probe("share-number-duplicated")
                continue
            if isinstance(model, tuple) and kind in ("modify", "update", "readrange"):
                # resolve the ambiguity left by a failed write before building on it
                st, res = drive(rd.create_node_from_uri(cap).download_best_version(), "read")
                if st == "ok":
                    expect_matches(res, "read after failed write")
                if isinstance(model, tuple):
                    break
            if kind == "overwrite":
                data = pat_bytes(op[2], op[1])
                st, res = drive(node.overwrite(MutableData(data)), "overwrite")
                after_write(st, res, "overwrite(%d)" % len(data), bytearray(data))
            elif kind == "modify":
                mk, msz, mp = op[1], op[2], op[3]
                extra = pat_bytes(mp, msz)

                def modifier(old, servermap, first_time, mk=mk, extra=extra):
                    if mk == "append":
                        return old + extra
                    if mk == "prepend":
                        return extra + old
                    if mk == "truncate-half":
                        return old[:len(old) // 2]
                    return None if mk == "same" else old
                cur = bytes(model)
                newm = {"append": cur + extra, "prepend": extra + cur, "truncate-half": cur[:len(cur) // 2], "same": cur}[mk]
                st, res = drive(node.modify(modifier), "modify")
                if mk == "same" and st == "ok":
                    probe("modify-noop")
                    continue
                after_write(st, res, "modify(%s)" % mk, bytearray(newm))
            elif kind == "update":
                offk, offr, ln, up = op[1], op[2], op[3], op[4]
                size = len(model)
                seg = cfg["knobs"]["mseg"] if cfg["knobs"]["mseg"] <= 4096 else 64
                off = {"eof": size, "0": 0, "seg": seg, "seg-1": seg - 1, "seg+1": seg + 1, "mid": size // 2,
                       "last": max(0, size - 1), "rand": offr % (size + 1)}[offk]
                off = min(off, size)
                data = pat_bytes(up, ln)
                st, mv = drive(node.get_best_mutable_version(), "get_best_mutable_version")
                if st != "ok":
                    if st == "err" and not case.get("faults"):
                        bad(focus, "faultfree-mapupdate-failed", "get_best_mutable_version failed without faults: %s" % err_name(mv))
                    break
                newm = bytearray(model)
                newm[off:off + len(data)] = data
                st, res = drive(mv.update(MutableData(data), off), "update")
                probe("update-" + ("append" if off == size else "inplace") + ("-multi" if size > seg else ""))
                after_write(st, res, "update(off=%d,len=%d) on size %d" % (off, len(data), size), newm)
            elif kind == "read":
                st, res = drive(rd.create_node_from_uri(cap).download_best_version(), "read")
                if st == "ok":
                    expect_matches(res, "download_best_version via a second client")
                    probe("read-ok")
                elif st == "err":
                    probe("read-err-" + err_name(res))
                    if not case.get("faults"):
                        bad("C09", "faultfree-read-failed", "read failed without faults after ops %r: %s" % (case["ops"][:opi], res.getTraceback()[-600:]),
                            sig="C09.faultfree-read-failed.after-%s.%s" % (last_write[0], err_site(res)))
            elif kind == "readrange":
                from engines.immsim import RecConsumer
                roff, rlen = op[1], op[2]
                size = len(model)
                # C09 promises no clipping for mutable range reads (IReadable leaves it open and the web
                # front end clips before calling), so ranges are generated in bounds
                roff = roff % (size + 1)
                if rlen is not None:
                    rlen = min(rlen, size - roff)
                ro_cap = node.get_readonly_uri()
                st, v = drive(rd.create_node_from_uri(ro_cap).get_best_readable_version(), "get_best_readable_version")
                if st != "ok":
                    continue
                cons = RecConsumer("mr%d" % opi)
                st, res = drive(v.read(cons, roff, rlen), "version.read")
                want = bytes(model[roff:]) if rlen is None else bytes(model[roff:roff + rlen])
                if st == "ok":
                    probe("readrange-ok")
                    if cons.data() != want:
                        bad("C09", "range", "read(offset=%d,size=%r) on size %d returned %d bytes, expected %d (fmt=%s mseg=%d)" % (
                            roff, rlen, size, len(cons.data()), len(want), cfg["fmt"], cfg["knobs"]["mseg"]))
                elif st == "err" and not case.get("faults"):
                    bad("C09", "faultfree-range-failed", "range read(offset=%d,size=%r) on size %d failed: %s" % (roff, rlen, size, res.getTraceback()[-500:]),
                        sig="C09.faultfree-range-failed." + err_name(res))
            if viol:
                break
        # final read-back
        if node is not None and not viol:
            st, res = drive(rd.create_node_from_uri(cap).download_best_version(), "final read")
            if st == "ok":
                expect_matches(res, "final download_best_version")
            elif st == "err" and not case.get("faults"):
                bad("C09", "faultfree-read-failed", "final read failed after ops %r: %s" % (case["ops"], res.getTraceback()[-600:]),
                    sig="C09.faultfree-read-failed.after-%s.%s" % (last_write[0], err_site(res)))
        if cap is not None:
            wk = {si: writekey_of_cap(cap)}
            for oc in other_caps:
                wk[si_of_cap(oc)] = writekey_of_cap(oc)
            mon.check_secrets(wk)
            probe("writev-observed", len(mon.writes))
        return finish(g, viol, probes, case, props + (("C11",) if focus == "C09" else ()))
    finally:
        g.close()


# ------------------------------------------------------------------------------------------
# profile: versions (C10 reads return only published versions, C11 ordering / rollback)
# ------------------------------------------------------------------------------------------
SDMF_HDR = ">BQ32s16sBBQQLLLLQQ"
MDMF_HDR = ">BQ32sBBQQQQQQQQQQ"
MUT_KINDS = ["flip", "seq+1", "seq-1", "root", "salt", "k", "n", "segsize", "datalen", "offset", "vkey", "sig", "chain", "bht",
             "data", "privkey", "truncate", "replay", "foreign", "splice", "resign", "resign+key", "delete", "chainnum", "body-old", "body-foreign"]


def parse_mut_share(data):
    """field map for the two formats (independent of allmydata.mutable.layout)."""
    if data is None or len(data) < 60:
        return None
    if data[0] == 0 and len(data) >= struct.calcsize(SDMF_HDR):
        (ver, seq, root, iv, k, n, segsize, datalen, o_sig, o_chain, o_bht, o_data, o_priv, o_eof) = struct.unpack(SDMF_HDR, data[:struct.calcsize(SDMF_HDR)])
        hl = struct.calcsize(SDMF_HDR)
        return {"fmt": 0, "seq": seq, "root": root, "k": k, "n": n, "segsize": segsize, "datalen": datalen, "hdr": hl,
                "signed_len": struct.calcsize(">BQ32s16sBBQQ"), "off_table": (75, ["L", "L", "L", "L", "Q", "Q"]),
                "regions": {"vkey": (hl, o_sig), "sig": (o_sig, o_chain), "chain": (o_chain, o_bht), "bht": (o_bht, o_data),
                            "data": (o_data, o_priv), "privkey": (o_priv, min(o_eof, len(data))), "salt": (41, 57)}}
    if data[0] == 1 and len(data) >= struct.calcsize(MDMF_HDR):
        (ver, seq, root, k, n, segsize, datalen, o_priv, o_chain, o_sig, o_vkey, o_vkey_end, o_data, o_bht, o_eof) = struct.unpack(MDMF_HDR, data[:struct.calcsize(MDMF_HDR)])
        hl = struct.calcsize(MDMF_HDR)
        return {"fmt": 1, "seq": seq, "root": root, "k": k, "n": n, "segsize": segsize, "datalen": datalen, "hdr": hl,
                "signed_len": struct.calcsize(">BQ32sBBQQ"), "off_table": (59, ["Q"] * 8),
                "regions": {"privkey": (o_priv, o_chain), "chain": (o_chain, o_sig), "sig": (o_sig, o_vkey), "vkey": (o_vkey, o_vkey_end),
                            "data": (o_data, o_bht), "bht": (o_bht, min(o_eof, len(data))), "salt": (o_data, min(o_data + 16, len(data)))}}
    return None


def rebuild_container(raw, newdata):
    """Put new share data into a mutable container file image (data length field at 84, data at 468;
    the extra-lease area follows the data: keep whatever followed)."""
    (datalen,) = struct.unpack(">Q", raw[84:92])
    tail = raw[468 + datalen:]
    (extra_off,) = struct.unpack(">Q", raw[92:100])
    new_extra = 468 + len(newdata)
    head = raw[:84] + struct.pack(">Q", len(newdata)) + struct.pack(">Q", new_extra) + raw[100:468]
    if not tail:
        tail = b"\x00\x00\x00\x00"
    return head + newdata + tail


def mutate_mut_share(raw, kind, p1, p2, ctx):
    data = parse_mutable_container(raw)
    if data is None:
        return raw
    sb = bytearray(data)
    p = parse_mut_share(data)

    def flip(i):
        if 0 <= i < len(sb):
            sb[i] ^= (1 + p2 % 255)

    def flip_region(name):
        a, b = p["regions"][name]
        b = min(b, len(sb))
        if b > a:
            flip(a + p1 % (b - a))
            return True
        return False
    if kind == "delete":
        return None
    if kind in ("replay", "foreign"):
        other = ctx.get(kind)
        return other if other is not None else raw
    if kind == "flip" or p is None:
        flip(p1 % max(1, len(sb)))
    elif kind in ("seq+1", "seq-1"):
        seq = max(0, p["seq"] + (1 if kind == "seq+1" else -1))
        sb[1:9] = struct.pack(">Q", seq)
    elif kind == "root":
        flip(9 + p1 % 32)
    elif kind in ("k", "n", "segsize", "datalen"):
        base = 57 if p["fmt"] == 0 else 41
        pos = {"k": base, "n": base + 1, "segsize": base + 2, "datalen": base + 10}[kind]
        width = 1 if kind in ("k", "n") else 8
        cur = int.from_bytes(sb[pos:pos + width], "big")
        new = [cur + 1, max(0, cur - 1), 0, cur * 2, 255 if width == 1 else cur + 1000][p2 % 5]
        sb[pos:pos + width] = (new % (1 << (8 * width))).to_bytes(width, "big")
    elif kind == "offset":
        start, fields = p["off_table"]
        idx = p1 % len(fields)
        pos = start + sum(4 if f == "L" else 8 for f in fields[:idx])
        width = 4 if fields[idx] == "L" else 8
        cur = int.from_bytes(sb[pos:pos + width], "big")
        new = [cur + 1, max(0, cur - 1), 0, cur + 32, len(sb)][p2 % 5]
        sb[pos:pos + width] = (new % (1 << (8 * width))).to_bytes(width, "big")
    elif kind in ("vkey", "sig", "chain", "bht", "data", "privkey", "salt"):
        if not flip_region(kind):
            flip(p1 % max(1, len(sb)))
    elif kind == "truncate":
        pts = sorted(set([0, 1, 9, 41, p["hdr"] - 1, p["hdr"]] + [x + d for r_ in p["regions"].values() for x in r_ for d in (-1, 0, 1)] + [p1 % max(1, len(sb))]))
        pts = [x for x in pts if 0 <= x < len(sb)]
        del sb[pts[p2 % len(pts)]:]
    elif kind == "splice":
        other = ctx.get("replay")
        if other is not None:
            od = parse_mutable_container(other)
            if od and len(od) >= p["signed_len"]:
                # an older version's signed prefix (and signature region if the layout agrees) on the newest data
                sb[:p["signed_len"]] = od[:p["signed_len"]]
    elif kind == "chainnum":
        # the node number of one share-hash-chain entry is rewritten (a chain that names the root, a leaf, its own leaf...)
        a, b = p["regions"]["chain"]
        nent = (min(b, len(sb)) - a) // 34
        if nent > 0:
            e = a + 34 * (p1 % nent)
            cur = int.from_bytes(sb[e:e + 2], "big")
            new = [0, 0, 0, 1, 2, cur ^ 1, cur + 1, 0xffff][p2 % 8]
            if new == cur:
                new = 0
            sb[e:e + 2] = new.to_bytes(2, "big")
    elif kind in ("body-old", "body-foreign"):
        # the genuine signed prefix, signature and verification key of this share on the body (share hash chain, block
        # hash tree, blocks, salts) of the same-numbered share of an older version / of another file: k such shares agree
        # with one another all the way up to a share-hash root -- only not the signed one
        other = ctx.get("replay" if kind == "body-old" else "foreign")
        od = parse_mutable_container(other) if other is not None else None
        q = parse_mut_share(od) if od else None
        if q and q["fmt"] == p["fmt"]:
            nb = bytearray(od)
            nb[:p["signed_len"]] = sb[:p["signed_len"]]
            for r_ in ("sig", "vkey"):
                (a, b), (c, d_) = p["regions"][r_], q["regions"][r_]
                if b - a == d_ - c:
                    nb[c:d_] = sb[a:b]
            sb = nb
    elif kind in ("resign", "resign+key"):
        from allmydata.crypto import rsa as rsa_mod
        pool = gridsim.rsa_pool()
        priv, pub = rsa_mod.create_signing_keypair_from_string(pool[(p1 + 7) % len(pool)])
        # forged prefix: bump the sequence number and alter the root hash, then sign with a key the attacker owns
        sb[1:9] = struct.pack(">Q", p["seq"] + 1 + p2 % 3)
        sb[9 + p1 % 32] ^= 0x11
        sig = rsa_mod.sign_data(priv, bytes(sb[:p["signed_len"]]))
        a, b = p["regions"]["sig"]
        if b - a == len(sig):
            sb[a:b] = sig
        if kind == "resign+key":
            va, vb = p["regions"]["vkey"]
            vk = rsa_mod.der_string_from_verifying_key(pub)
            if vb - va == len(vk):
                sb[va:vb] = vk
    return rebuild_container(raw, bytes(sb))


def gen_versions(seed, tier, focus):
    ch = Chooser(seed)
    cfg = gen_common(ch, tier)
    cfg["fmt"] = ch.pick("config", "fmt", ["SDMF", "MDMF"])
    cfg["nservers"] = max(cfg["nservers"], 2)
    sz = sizes_for(cfg)
    W = "workload"
    nver = ch.randint(W, "nver", 1, 4 if focus == "C10" else 6)
    ops = [["publish", ch.pick(W, ("size", v), sz[1:]), ch.randint(W, ("pat", v), 1, 1 << 30),
            # servers unavailable during this publish (C11)
            sorted(ch.sample(W, ("down", v), range(cfg["nservers"]), ch.pick(W, ("ndown", v), [0, 0, 1, 2]))) if focus == "C11" and v else [],
            # share numbers rolled back to an older published image on every server just before this publish (C11): the
            # publish's own survey then sees a newer version that may no longer be recoverable
            [[sh, ch.randrange(W, ("rb-oldv", v, sh), 8)] for sh in ch.sample(W, ("rb", v), range(cfg["n"]), ch.randint(W, ("nrb", v), 1, cfg["n"]))]
            if focus == "C11" and v >= 2 and ch.chance(W, ("rollback", v), 0.35) else [],
            # how the new version is written: a plain overwrite, or modify() through a version object obtained before the
            # previous publish (a long-lived handle): its own survey may then locate a newer version than the one it holds
            ch.pick(W, ("via", v), ["overwrite", "overwrite", "held-modify"]) if focus == "C11" and v >= 2 else "overwrite"]
           for v in range(nver)]
    muts = []
    F = "faults"
    if focus == "C10":
        for j in range(ch.randint(F, "nmut", 1, 2 * cfg["n"])):
            muts.append([ch.randrange(F, ("srv", j), cfg["nservers"]), ch.randrange(F, ("sh", j), cfg["n"]), ch.pick(F, ("kind", j), MUT_KINDS),
                         ch.randrange(F, ("p1", j), 1 << 30), ch.randrange(F, ("p2", j), 1 << 30), ch.randrange(F, ("oldv", j), 8)])
        if ch.chance(F, "coordinated", 0.35):
            # a coordinated forgery: the same signed-header field rewritten to the same value on many shares, so that the
            # doctored shares agree with each other (k of them form a 'version' nobody signed); some shares stay genuine
            kind = ch.pick(F, "co-kind", ["salt", "salt", "datalen", "datalen", "segsize", "k", "n", "seq+1", "seq-1", "root", "offset", "splice"])
            p1, p2, oldv = ch.randrange(F, "co-p1", 1 << 30), ch.randrange(F, "co-p2", 1 << 30), ch.randrange(F, "co-oldv", 8)
            keep = set(ch.sample(F, "co-keep", range(cfg["n"]), ch.randint(F, "co-nkeep", 0, max(0, cfg["n"] - cfg["k"]))))
            muts = muts[:ch.randint(F, "co-others", 0, 2)] + [[-1, sh, kind, p1, p2, oldv] for sh in range(cfg["n"]) if sh not in keep]
        if ch.chance(F, "grafted", 0.2):
            # grafted bodies: the lowest share numbers (the ones a reader tries first) carry a share hash chain whose
            # entries are renumbered, the next ones the body of another version / another file under the genuine signed
            # prefix, on every server that holds them; the rest stay genuine
            nlead = ch.pick(F, "gr-nlead", [0, 1, 1, 1, 2])
            nbody = ch.randint(F, "gr-nbody", max(1, cfg["k"] - 1), cfg["n"])
            donor = ch.pick(F, "gr-donor", ["body-old", "body-old", "body-foreign"])
            oldv = ch.randrange(F, "gr-oldv", 8)
            lead_p1, lead_p2 = ch.pick(F, "gr-entry", [0, 1, 2, 3, 1 << 20]), ch.randrange(F, "gr-num", 8)
            if ch.chance(F, "gr-last-entry", 0.5):
                lead_p1 = -1
            muts = muts[:ch.randint(F, "gr-others", 0, 1)]
            for sh in range(cfg["n"]):
                if sh < nlead:
                    muts.append([-1, sh, "chainnum", lead_p1, lead_p2, oldv])
                elif sh < nlead + nbody:
                    muts.append([-1, sh, donor, 0, 0, oldv])
            if ch.chance(F, "gr-same-size", 0.7) and len(ops) >= 2:
                for o_ in ops:
                    o_[1] = ops[-1][1]
            cfg["foreign_size"] = ops[-1][1] if ch.chance(F, "gr-foreign-same-size", 0.7) else None
    else:
        # stale shares of older versions left / replayed on chosen servers
        for j in range(ch.randint(F, "nstale", 0, cfg["n"] + 2)):
            muts.append([ch.randrange(F, ("srv", j), cfg["nservers"]), ch.randrange(F, ("sh", j), cfg["n"]),
                         ch.pick(F, ("kind", j), ["replay", "replay", "replay", "delete"]),
                         0, 0, ch.randrange(F, ("oldv", j), 8)])
    reads = [["read", ch.pick(W, ("rcap", i), ["rw", "ro"]), sorted(ch.sample(W, ("rdown", i), range(cfg["nservers"]), ch.pick(W, ("nrdown", i), [0, 0, 0, 1, 2])))]
             for i in range(ch.randint(W, "nreads", 1, 2))]
    return {"engine": "mutsim", "profile": "versions", "focus": focus, "seed": seed, "cfg": cfg, "ops": ops + reads, "muts": muts, "faults": []}


def observed_before_write(answers, caller, wrote_seq):
    """Highest sequence number in the answers `caller` received before its first write of wrote_seq
    (answers to its own writes echo the data *before* the write, so every answer counts)."""
    return max([sq for a_ in answers if a_["caller"] == caller for sq in a_["seqs"] if sq != wrote_seq] + [0])


def classify_unavailable(intact_v, queried, state, published, img_data, k):
    """Why might a read legitimately have missed k intact shares?  (structural signature)"""
    dirty = set()       # servers holding at least one share of this file that is not an intact published image
    for (nm, sh), d in state.items():
        v = share_version(d)
        if not (v in published and d in img_data.get((v, sh), ())):
            dirty.add(nm)
    clean_q = queried - dirty
    if len([1 for sh, srvs in intact_v.items() if srvs & clean_q]) >= k:
        return "located-k-intact-on-clean-servers"
    if len([1 for sh, srvs in intact_v.items() if srvs & queried]) >= k:
        return "intact-shares-only-on-servers-that-also-hold-a-bad-share"
    return "intact-shares-on-servers-never-asked"


class ReadvMonitor(WireMonitor):
    def __init__(self, grid, viol):
        WireMonitor.__init__(self, grid, viol)
        self.readvs = []
        self.answers = []      # responses that actually reached the caller: (caller, callee, method, max seqnum seen or None)
        grid.net.answer_hook = self.on_answer

    def on_answer(self, caller, callee, methname, res):
        if methname not in ("slot_readv", "slot_testv_and_readv_and_writev"):
            return
        seqs = []
        ok = not isinstance(res, Failure)
        if ok:
            data = res if methname == "slot_readv" else (res[1] if isinstance(res, tuple) and len(res) > 1 else {})
            if isinstance(data, dict):
                for shnum, lst in data.items():
                    for b in lst:
                        if isinstance(b, bytes) and len(b) >= 9 and b[0] in (0, 1):
                            # (the answer does not say which offsets were read: a data block that happens to begin with
                            # 0x00/0x01 parses as a header with a random 64-bit "sequence number"; real ones are small)
                            sq_ = struct.unpack(">Q", b[1:9])[0]
                            if sq_ < (1 << 32):
                                seqs.append(sq_)
        heads = {}
        if ok and isinstance(data, dict):
            for shnum, lst in data.items():
                if lst and isinstance(lst[0], bytes):
                    heads[shnum] = lst[0][:41]
        self.answers.append({"caller": caller, "callee": callee, "method": methname, "ok": ok, "seqs": seqs, "n": R.events,
                             "heads": heads, "whole": ok and isinstance(data, dict)})

    def on_call(self, caller, callee, methname, args, kwargs, res):
        WireMonitor.on_call(self, caller, callee, methname, args, kwargs, res)
        # what the server showed this caller about each share (first 41 bytes = version, sequence number, root hash), for
        # calls whose first read vector starts at offset 0
        if methname in ("slot_readv", "slot_testv_and_readv_and_writev") and not isinstance(res, Failure):
            readv = args[2] if methname == "slot_readv" else args[3]
            data = res if methname == "slot_readv" else (res[1] if isinstance(res, tuple) and len(res) > 1 else None)
            if readv and readv[0][0] == 0 and readv[0][1] >= 41 and isinstance(data, dict):
                if not hasattr(self, "shown"):
                    self.shown = []
                self.shown.append({"caller": caller, "callee": callee, "si": args[0], "n": R.events,
                                   "filtered": bool(args[1]) if methname == "slot_readv" else False,
                                   "heads": {shnum: lst[0][:41] for shnum, lst in data.items() if lst and isinstance(lst[0], bytes) and len(lst[0]) >= 41}})
        if methname == "slot_readv":
            self.readvs.append({"caller": caller, "callee": callee, "ok": not isinstance(res, Failure), "n": R.events})


class MapupdateMonitor(object):
    """Records what each ServermapUpdater had located at the instant it declared itself done
    (harness-side wrapper, /repo is not touched).  Answers that reach the client after that instant are
    ignored by the updater ("but we're not running"), so they are not part of what the read located."""
    def __init__(self, grid):
        from allmydata.mutable import servermap as sm
        self.sm = sm
        self.snaps = []
        self.names = dict((s.serverid, s.name) for s in grid.servers)
        self.orig = sm.ServermapUpdater._done
        mon = self

        def _done(upd):
            if upd._running:
                mon.snaps.append(mon.snapshot(upd))
            return mon.orig(upd)
        sm.ServermapUpdater._done = _done

    def snapshot(self, upd):
        shares = []
        for (server, shnum), (verinfo, ts) in upd._servermap.get_known_shares().items():
            shares.append((self.names.get(server.get_serverid()), shnum, verinfo[0], verinfo[1]))
        return {"n": R.events, "mode": upd.mode, "shares": sorted(shares, key=repr),
                "outstanding": len(upd._queries_outstanding), "extra": len(upd.extra_servers)}

    def close(self):
        self.sm.ServermapUpdater._done = self.orig


def exec_versions(case):
    from sim.runner import child_tmp
    cfg = case["cfg"]
    focus = case["focus"]
    props = {"C10": ("C10",), "C11": ("C11",)}[focus]
    base = tempfile.mkdtemp(dir=child_tmp())
    viol, probes = [], {}

    def probe(nm, c=1):
        probes[nm] = probes.get(nm, 0) + c

    def bad(prop, clause, detail, sig=None):
        viol.append({"clause": "%s.%s" % (prop, clause), "sig": sig or "%s.%s" % (prop, clause), "detail": detail})

    g = build_grid(case, base)
    mapmon = MapupdateMonitor(g)
    try:
        mon = ReadvMonitor(g, viol)
        k, n = cfg["k"], cfg["n"]
        w = g.add_client(k=k, happy=1, n=n, fmt=cfg["fmt"])
        ver = MDMF_VERSION if cfg["fmt"] == "MDMF" else SDMF_VERSION
        published = {}     # version id -> plaintext
        images = []        # per publish: {(srv, shnum): raw container}
        node = cap = si = None
        last_seq = 0
        pubs = [op for op in case["ops"] if op[0] == "publish"]
        reads = [op for op in case["ops"] if op[0] == "read"]
        # a second, unrelated mutable file for 'foreign' shares
        foreign_raw = {}
        if any(m[2] in ("foreign", "body-foreign") for m in case.get("muts", [])):
            fsize = cfg.get("foreign_size")
            st, fn = run(w.create_mutable_file(MutableData(b"foreign file contents " * 5 if not fsize else pat_bytes(7, fsize)), version=ver))
            if st == "ok":
                fsi = si_of_cap(fn.get_uri())
                for s in g.servers:
                    for shnum, raw in s.shares_of(fsi).items():
                        foreign_raw[shnum] = raw
        prev_down = []
        ever_disturbed = [False]
        held_versions = {}
        for vi, op in enumerate(pubs):
            _, size, pat, down = op[:4]
            rollback = op[4] if len(op) > 4 else []
            via = op[5] if len(op) > 5 else "overwrite"
            data = pat_bytes(pat, size)
            held_now = held_versions.get(vi - 2) if via == "held-modify" else None
            if via == "held-modify" and (held_now is None or not published or rollback):
                via = "overwrite"
            if via == "held-modify":
                # the modifier appends a token; applied to the newest version the survey can recover
                newest_before = max(published, key=lambda v: v[1])
                token_ = b"|held-modify-%d" % vi
                data = published[newest_before] + token_
            if rollback and images and si:
                for (shnum, oldv) in rollback:
                    older = images[oldv % len(images)]
                    for s_ in g.servers:
                        cur = s_.shares_of(si).get(shnum)
                        if cur is None:
                            continue
                        old_raw = older.get((s_.name, shnum))
                        if old_raw is None:
                            cands = [raw for (nm, sh), raw in sorted(older.items()) if sh == shnum]
                            if not cands:
                                continue
                            old_raw = dup_image_for_server(cur, cands[0])
                        with open(s_.share_path(si, shnum), "wb") as f:
                            f.write(old_raw)
                        probe("rolled-back-before-publish")
            a0 = len(mon.answers)
            up_for_w = set(s.name for i, s in enumerate(g.servers) if i not in down)
            old_datas = set(d for d in (disk_state(g.servers, si).values() if si else []) if d)
            for sidx in down:
                if sidx < len(g.servers):
                    g.net.disconnect(w.sim_name, g.servers[sidx].name, "server unavailable during publish %d" % vi)
            if node is None:
                st, res = run(w.create_mutable_file(MutableData(data), version=ver))
                if st == "ok":
                    node = res
                    cap = node.get_uri()
                    si = si_of_cap(cap)
            elif via == "held-modify":
                # ground truth before the operation: the highest sequence number recoverable from the servers the writer can reach
                reach_ = [s_ for i_, s_ in enumerate(g.servers) if i_ not in down]
                vb_ = versions_on_disk(disk_state(reach_, si))
                best_seq_before = max([v[1] for v, shm in vb_.items() if len(shm) >= k and v in published] + [-1])

                def modifier_(old, servermap, first_time, token_=token_):
                    return old if old.endswith(token_) else old + token_
                sn0_ = len(mapmon.snaps)
                st, res = run(held_now.modify(modifier_))
                probe("held-modify")
                # what modify()'s own survey(s) had located (snapshot at the instant each map update declared itself done):
                # the highest sequence number of which >= k distinct shares were in the map
                located_best = -1
                for sn_ in mapmon.snaps[sn0_:]:
                    byv = {}
                    for (nm_, sh_, seq_, root_) in sn_["shares"]:
                        byv.setdefault((seq_, root_), set()).add(sh_)
                    located_best = max([located_best] + [sq for (sq, rt), shs in byv.items() if len(shs) >= k])
                best_seq_before = min(best_seq_before, located_best) if located_best >= 0 else -1
            else:
                st, res = run(node.overwrite(MutableData(data)))
            a_end = len(mon.answers)
            settle(300_000)
            if via == "held-modify" and st == "ok":
                # modify() re-surveys before it writes: it must have applied the modifier to the newest version that survey
                # could recover, which (all of the writer's servers being reachable now or not) is at least the newest one
                # whose shares the writer's reachable servers hold
                rdc_ = g.add_client(k=k, happy=1, n=n)
                stc_, got_ = run(rdc_.create_node_from_uri(cap).download_best_version(), 300_000)
                if stc_ == "ok" and got_ != data and got_.endswith(token_):
                    base_ = got_[:-len(token_)]
                    base_seqs = [v[1] for v, d_ in published.items() if d_ == base_]
                    if base_seqs and max(base_seqs) < best_seq_before:
                        bad("C11", "modify-applied-to-older-version", "modify() through a long-held version object applied the modifier to the contents of "
                            "seq %d although seq %d was recoverable from the servers it could reach (its own survey located it)" % (
                                max(base_seqs), best_seq_before))
                    else:
                        probe("held-modify-on-equal-seq-competitor")
            if node is not None and st == "ok":
                # a handle on the version just published, for a later held-modify
                sth, mfv_ = run(node.get_best_mutable_version(), 300_000)
                if sth == "ok":
                    held_versions[vi] = mfv_
                settle(300_000)
            for sidx in down:
                if sidx < len(g.servers):
                    g.reconnect(w, g.servers[sidx])
            this_down, prev_down_now = down, prev_down
            prev_down = down
            if down or rollback:
                # from here on the grid may hold older copies of a share number on servers the writer's (bounded) survey does
                # not reach: "strictly increasing" is then only promised relative to what each survey observes
                ever_disturbed[0] = True
            if st != "ok":
                probe("publish-failed-" + (err_name(res) if st == "err" else st))
                if node is None:
                    return finish(g, viol, probes, case, props)
                continue
            state = disk_state(g.servers, si)
            vers = versions_on_disk(state)
            newest = max(vers, key=lambda v: v[1])
            # what this publish wrote: the version on the servers it could reach
            wrote = [share_version(d)[1] for (nm, sh), d in state.items() if share_version(d) and nm in up_for_w and d not in old_datas]
            if wrote and max(wrote) <= observed_before_write(mon.answers[a0:], w.sim_name, max(wrote)):
                bad("C11", "seqnum-not-above-survey", "publish %d wrote sequence number %d although its own survey had seen %d" % (
                    vi, max(wrote), observed_before_write(mon.answers[a0:], w.sim_name, max(wrote))))
            # (after a rollback by the servers the writer cannot know its own previous sequence number: only the
            # survey clause above applies)
            if not this_down and not prev_down_now and not rollback and not ever_disturbed[0] and newest[1] <= last_seq:
                bad("C11", "seqnum-not-increased", "publish %d (all servers reachable, also during the previous publish) succeeded with sequence number %d, previous was %d" % (vi, newest[1], last_seq))
            last_seq = newest[1] if rollback else max(last_seq, newest[1])
            published[newest] = data
            images.append({(s.name, shnum): raw for s in g.servers for shnum, raw in s.shares_of(si).items()
                           if share_version(parse_mutable_container(raw)) == newest})
            probe("published")
        if node is None or not published:
            return finish(g, viol, probes, case, props)
        newest_v = max(published, key=lambda v: v[1])
        # ---- adversary / stale shares
        expanded = []
        for (sidx, shnum, kind, p1, p2, oldv) in case.get("muts", []):
            if sidx == -1:      # every server that holds this share number
                expanded += [(i, shnum, kind, p1, p2, oldv) for i, s_ in enumerate(g.servers) if shnum in s_.shares_of(si)]
            else:
                expanded.append((sidx, shnum, kind, p1, p2, oldv))
        for (sidx, shnum, kind, p1, p2, oldv) in expanded:
            if sidx >= len(g.servers):
                continue
            srv = g.servers[sidx]
            path = srv.share_path(si, shnum)
            ctx = {}
            older = images[oldv % len(images)]
            cands = [raw for (nm, sh), raw in sorted(older.items()) if sh == shnum]
            if cands:
                ctx["replay"] = cands[0]
            if shnum in foreign_raw:
                ctx["foreign"] = foreign_raw[shnum]
            if os.path.exists(path):
                with open(path, "rb") as f:
                    raw = f.read()
                new = mutate_mut_share(raw, kind, p1, p2, ctx)
            elif kind in ("replay", "foreign") and ctx.get(kind) is not None:
                os.makedirs(os.path.dirname(path), exist_ok=True)
                new = ctx[kind]
            else:
                continue
            if new is None:
                os.unlink(path)
            else:
                with open(path, "wb") as f:
                    f.write(new)
            probe("mut-" + kind)
        # ground truth after tampering: which published versions are intact where
        state = disk_state(g.servers, si)
        intact = {}     # version -> {shnum: set(server)}
        img_data = {}
        for img in images:
            for (nm, sh), raw in img.items():
                d = parse_mutable_container(raw)
                img_data.setdefault((share_version(d), sh), set()).add(d)
        for (nm, sh), d in state.items():
            v = share_version(d)
            if v in published and d in img_data.get((v, sh), ()):
                intact.setdefault(v, {}).setdefault(sh, set()).add(nm)
        # ---- reads
        for ri, op in enumerate(reads):
            _, capkind, rdown = op
            rd = g.add_client(k=k, happy=1, n=n)
            for sidx in rdown:
                if sidx < len(g.servers):
                    g.net.disconnect(rd.sim_name, g.servers[sidx].name, "unreachable for this reader")
            up_names = set(s.name for i, s in enumerate(g.servers) if i not in rdown)
            rcap = cap if capkind == "rw" else node.get_readonly_uri()
            n0 = len(mon.readvs)
            an0 = len(mon.answers)
            sn0 = len(mapmon.snaps)
            try:
                st, res = run(rd.create_node_from_uri(rcap).download_best_version(), 300_000)
            except EventCap:
                bad(focus, "livelock", "read never quiesces")
                break
            queried = set(a_["callee"] for a_ in mon.answers[an0:] if a_["caller"] == rd.sim_name and a_["ok"])
            asked = set(r["callee"] for r in mon.readvs[n0:] if r["caller"] == rd.sim_name) | set(
                a_["callee"] for a_ in mon.answers[an0:] if a_["caller"] == rd.sim_name)

            def recoverable_from(names):
                out = []
                for v, shmap in intact.items():
                    if len([sh for sh, srvs in shmap.items() if srvs & names]) >= k:
                        out.append(v)
                return out
            rec_up = recoverable_from(up_names)
            # what the read had located: the servermap of its last map update at the instant that update finished
            # (answers arriving later are discarded by the updater and are not "located")
            snap = mapmon.snaps[-1] if len(mapmon.snaps) > sn0 else None

            def recoverable_located(snap):
                out = []
                for v, shmap in intact.items():
                    shs = set(sh for (nm, sh, seq, root) in snap["shares"] if seq == v[1] and root == v[2] and nm in shmap.get(sh, ()))
                    if len(shs) >= k:
                        out.append(v)
                return out
            got_v = None
            if st == "hung":
                bad(focus, "read-hung", "download_best_version never completed")
                continue
            if st == "ok":
                probe("read-ok")
                match = [v for v, pt in published.items() if pt == res]
                if not match:
                    bad("C10", "unpublished-bytes", "read returned %d bytes that are not the plaintext of any published version (muts=%r)" % (len(res), case.get("muts")))
                    continue
                got_v = max(match, key=lambda v: v[1])
                if focus == "C11":
                    rec_q = recoverable_located(snap) if snap else []
                    if rec_q:
                        best = max(rec_q, key=lambda v: (v[1], v[2]))
                        if got_v[1] < best[1]:
                            bad("C11", "not-highest-located", "read returned version seq %d although its servermap had located k intact shares of version seq %d (on %r); stale=%r" % (
                                got_v[1], best[1], sorted(set(nm for (nm, sh, seq, root) in snap["shares"] if seq == best[1])), case.get("muts")))
                    if snap is None:
                        probe("read-no-mapupdate-snapshot")
                    probe("read-newest" if got_v == newest_v else "read-older")
                    if got_v != newest_v and newest_v in recoverable_from(queried):
                        probe("read-older-newest-answer-arrived-after-mapupdate-done")
            else:
                probe("read-err-" + err_name(res))
                if newest_v in rec_up and focus == "C10":
                    # shares on reachable servers that claim the newest (seqnum, root hash) but are not intact
                    tampered = set(sh for (nm, sh), d in state.items()
                                   if nm in up_names and share_version(d) == newest_v and nm not in intact.get(newest_v, {}).get(sh, ()))
                    bad("C10", "unavailable", "read failed with %s although %d intact shares of the newest published version are on reachable servers (k=%d, %d tampered shares claim the same version; muts=%r)" % (
                        err_name(res), len([1 for sh, srvs in intact[newest_v].items() if srvs & up_names]), k, len(tampered), case.get("muts")),
                        sig="C10.unavailable.%s.%s" % (
                            "k-tampered-shares-claim-newest-version" if len(tampered) >= k else
                            classify_unavailable(intact[newest_v], queried, state, published, img_data, k) + "." + capkind + "-cap",
                            err_site(res)))
                if focus == "C11" and rec_up and not case.get("muts"):
                    bad("C11", "read-failed", "read failed with %s although a published version is recoverable from reachable servers" % err_name(res),
                        sig="C11.read-failed." + err_site(res))
            if focus == "C11" and snap is not None and snap["mode"] == MODE_READ and (snap["outstanding"] or snap["extra"]):
                # "among the versions it located": a read-mode survey that stops while servers remain unasked or unanswered
                # has, by its own rule, digested the answers of 2k servers (k + epsilon, epsilon = k) -- every share those
                # answers showed is then in its servermap.  An answer that was received but whose shares never reached the
                # map was not "located", and must not count towards stopping.
                digested = 0
                for a_ in mon.answers[an0:]:
                    if a_["caller"] != rd.sim_name or a_["n"] > snap["n"] or a_["method"] != "slot_readv":
                        continue
                    if not a_["ok"] or all((a_["callee"], sh_) in set((nm_, s2_) for (nm_, s2_, _q, _r) in snap["shares"]) for sh_ in a_["heads"]):
                        digested += 1
                # (queries to unreachable servers fail at once and never produce an answer event: all of them may have been counted)
                digested += len([1 for sidx in rdown if sidx < len(g.servers)])
                if digested < 2 * k:
                    bad("C11", "finished-before-digesting-answers", "the read's survey declared itself finished (with %d queries outstanding and %d servers never asked) "
                        "when the shares of only %d answers had been entered into its servermap; its own rule is k+epsilon = %d (returned %s)" % (
                            snap["outstanding"], snap["extra"], digested, 2 * k, "seq %d" % got_v[1] if st == "ok" and got_v is not None else st))
            if focus == "C11" and snap is not None:
                # when its map update finished, the servermap held a newer version than the best one it could recover
                # -> the updater must by then have had an answer from every reachable server
                by_ver = {}
                for (nm, sh, seq, root) in snap["shares"]:
                    by_ver.setdefault((seq, root), set()).add(sh)
                best_seq = max([seq for (seq, root), shs in by_ver.items() if len(shs) >= k] or [0])
                if any(seq > best_seq for (seq, root) in by_ver):
                    probe("saw-unrecoverable-newer")
                    answered = set(a_["callee"] for a_ in mon.answers[an0:] if a_["caller"] == rd.sim_name and a_["n"] <= snap["n"])
                    if not up_names <= answered:
                        bad("C11", "stopped-early", "the map update finished with a newer version (seq %d) in its servermap than it could recover (seq %d) after answers from only %d of %d reachable servers (%d queries outstanding, %d servers never asked)" % (
                            max(seq for (seq, root) in by_ver), best_seq, len(answered & up_names), len(up_names), snap["outstanding"], snap["extra"]))
        return finish(g, viol, probes, case, props)
    finally:
        mapmon.close()
        g.close()


# ------------------------------------------------------------------------------------------
# profile: concurrent (C12 concurrent writers are detected, never silently clobbered)
# ------------------------------------------------------------------------------------------
def gen_concurrent(seed, tier, focus="C12"):
    ch = Chooser(seed)
    cfg = gen_common(ch, tier)
    cfg["fmt"] = ch.pick("config", "fmt", ["SDMF", "MDMF"])
    nw = ch.pick("config", "writers", [2, 2, 3])
    cfg["writers"] = nw
    # k, N on both sides of (writers+1)*k <= N
    if ch.chance("config", "roomy", 0.6):
        cfg["k"] = ch.randint("config", "k2", 1, 3)
        cfg["n"] = min(10, (nw + 1) * cfg["k"] + ch.randint("config", "slack", 0, 2))
    cfg["nservers"] = ch.randint("config", "ns2", max(2, min(cfg["n"], 4)), 10)
    W = "workload"
    sz = sizes_for(cfg)
    ops = [["create", ch.pick(W, "csize", sz[1:]), ch.randint(W, "cpat", 1, 1 << 30)]]
    for wi in range(nw):
        ops.append(["write", wi, ch.pick(W, ("kind", wi), ["overwrite", "overwrite", "modify"]), ch.pick(W, ("size", wi), sz[1:]),
                    ch.randint(W, ("pat", wi), 1, 1 << 30), ch.pick(W, ("start", wi), [0.0, 0.0, 0.001, 0.05, 0.3, 1.0])])
    cfg["net"]["jitter"] = ch.pick("config", "jitter2", [0.05, 0.5, 0.5])
    # shares lost before the writers start (a server lost its disk but stays up): both writers will want to re-create them
    cfg["lost"] = sorted(ch.sample("faults", "lost", range(cfg["n"]), ch.pick("faults", "nlost", [0, 0, 1, 1, 2])))
    # a partitioned grid: each writer cannot reach some of the servers (different ones), so the writers re-home shares on
    # different servers and find each other's shares where they expected none
    cfg["unreach"] = [sorted(ch.sample("faults", ("unreach", wi), range(cfg["nservers"]), ch.pick("faults", ("nunreach", wi), [0, 0, 0, 1, 2, 3])))
                      for wi in range(nw)]
    # one writer holds a version object from before the other's publish and uses it `held_wait` simulated seconds later
    cfg["held"] = ch.chance("config", "held", 0.2)
    cfg["held_wait"] = ch.pick("config", "held-wait", [0, 30, 61, 3600, 86400])
    return {"engine": "mutsim", "profile": "concurrent", "focus": "C12", "seed": seed, "cfg": cfg, "ops": ops, "faults": []}


def exec_concurrent(case):
    from sim.runner import child_tmp
    cfg = case["cfg"]
    base = tempfile.mkdtemp(dir=child_tmp())
    viol, probes = [], {}

    def probe(nm, c=1):
        probes[nm] = probes.get(nm, 0) + c

    def bad(clause, detail, sig=None):
        viol.append({"clause": "C12.%s" % clause, "sig": sig or "C12.%s" % clause, "detail": detail})

    g = build_grid(case, base)
    try:
        mon = ReadvMonitor(g, viol)
        k, n = cfg["k"], cfg["n"]
        creator = g.add_client(k=k, happy=1, n=n, fmt=cfg["fmt"])
        ver = MDMF_VERSION if cfg["fmt"] == "MDMF" else SDMF_VERSION
        creates = [op for op in case["ops"] if op[0] == "create"]
        op0 = creates[0] if creates else ["create", 10, 1]
        data0 = b"base:" + pat_bytes(op0[2], op0[1])
        st, node0 = run(creator.create_mutable_file(MutableData(data0), version=ver))
        if st != "ok":
            return finish(g, viol, probes, case, ("C12",))
        settle(200_000)
        cap = node0.get_uri()
        si = si_of_cap(cap)
        contents = {0: data0}
        for shn_ in cfg.get("lost", []):
            for s_ in g.servers:
                if shn_ in s_.shares_of(si):
                    os.unlink(s_.share_path(si, shn_))
                    probe("share-lost-before-race")
        writers = []
        results = {}
        wops = [op for op in case["ops"] if op[0] == "write"]
        if cfg.get("held") and len(wops) >= 2:
            # compare-and-swap through a long-held version object: B surveys, A publishes, time passes, B overwrites through the
            # version object of its old survey -- B must be told (UncoordinatedWriteError), A's version must not vanish silently
            ca = g.add_client(k=k, happy=1, n=n, fmt=cfg["fmt"])
            cb = g.add_client(k=k, happy=1, n=n, fmt=cfg["fmt"])
            stb, mfv = run(cb.create_node_from_uri(cap).get_best_mutable_version(), 300_000)
            settle(300_000)
            data_a = pat_bytes(wops[0][4], wops[0][3])
            data_b = pat_bytes(wops[1][4], wops[1][3])
            sta, _ra = run(ca.create_node_from_uri(cap).overwrite(MutableData(data_a)), 300_000)
            settle(300_000)
            if stb == "ok" and sta == "ok":
                R.advance(cfg.get("held_wait", 0))
                stw, rw_ = run(mfv.overwrite(MutableData(data_b)), 300_000)
                settle(300_000)
                probe("held-overwrite-%s" % (stw if stw != "err" else err_name(rw_)))
                if stw == "ok":
                    bad("held-version-overwrite-clobbered", "a writer that surveyed before another writer's successful publish overwrote the file through "
                        "the version object of that old survey %d simulated seconds later and was told it succeeded: the other writer's version is "
                        "silently gone" % cfg.get("held_wait", 0))
            return finish(g, viol, probes, case, ("C12",))
        for op in wops:
            _, wi, kind, size, pat, start = op
            c = g.add_client(k=k, happy=1, n=n, fmt=cfg["fmt"])      # separate NodeMaker: no shared serializer
            for sidx in (cfg.get("unreach") or [[]] * 8)[wi % 8] if cfg.get("unreach") else []:
                if sidx < len(g.servers):
                    g.net.disconnect(c.sim_name, g.servers[sidx].name, "partition: writer %d cannot reach this server" % wi)
                    probe("writer-server-unreachable")
            nodew = c.create_node_from_uri(cap)
            data = pat_bytes(pat, size)
            writers.append((wi, c, nodew, kind, data))

            def go(wi=wi, nodew=nodew, kind=kind, data=data):
                if kind == "overwrite":
                    d = nodew.overwrite(MutableData(data))
                else:
                    token = b"|W%d:" % wi + data.hex().encode()[:24]

                    def modifier(old, servermap, first_time, token=token):
                        # idempotent, like a directory edit: make sure our token is present
                        return old if token in old else old + token
                    d = nodew.modify(modifier)
                d.addCallbacks(lambda r: results.setdefault(wi, ("ok", r)), lambda f: results.setdefault(wi, ("err", f)))
            if start:
                dc = R.callLater(start, go)
                dc.sim_label = "writer-%d-start" % wi
            else:
                go()
        try:
            settle(400_000)
        except EventCap:
            bad("livelock", "concurrent writers never quiesce")
            return finish(g, viol, probes, case, ("C12",))
        state = disk_state(g.servers, si)
        vers = versions_on_disk(state)
        # (a) server-side ground truth: a test-and-set write is applied only on top of the share state the writer had last
        # been shown by that server (or on a share that did not exist and that the writer had been shown to be absent);
        # the pre-write state is what the server returns in the same call's read vector
        for wv in mon.writes:
            if wv["si"] != si or wv["ok"] is not True or not isinstance(wv.get("res"), tuple):
                continue
            pre = wv["res"][1] if len(wv["res"]) > 1 and isinstance(wv["res"][1], dict) else {}
            # what this writer knows about the shares on this server, in server-side order: answers it was given (an
            # answer lists every share the server holds, the read vector applies to all of them) and its own applied writes.
            # (Generation order on the server is what matters: share state only moves forward, so an answer produced
            # earlier can never show a newer state than the one this write was applied on.)
            timeline = []
            for a_ in getattr(mon, "shown", []):
                if a_["caller"] == wv["caller"] and a_["callee"] == wv["callee"] and a_["n"] < wv["n"] and a_["si"] == si:
                    timeline.append((a_["n"], 0, "shown", a_["heads"], a_.get("filtered")))
            for w2 in mon.writes:
                if w2["caller"] == wv["caller"] and w2["callee"] == wv["callee"] and w2["n"] < wv["n"] and w2["ok"] is True and w2["si"] == si:
                    own = {}
                    for shnum, (testv, writev, newlen) in w2["tw"].items():
                        for (woff, wdata) in writev:
                            if woff == 0 and len(wdata) >= 41 and wdata[0] in (0, 1):
                                own[shnum] = bytes(wdata[:41])
                    timeline.append((w2["n"], 1, "own", own, None))
            seen = {}
            for (n_, _o, what_, heads_, filtered_) in sorted(timeline, key=lambda t: (t[0], t[1])):
                if what_ == "shown" and not filtered_:
                    seen = dict(heads_)
                else:
                    seen.update(heads_)
            for shnum, (testv, writev, newlen) in wv["tw"].items():
                if not writev:
                    continue
                before_ = pre.get(shnum)
                before_head = before_[0][:41] if before_ and isinstance(before_[0], bytes) and before_[0] else None
                if before_head is None:
                    continue            # the share did not exist: creating it is allowed
                probe("applied-write-checked")
                if seen.get(shnum) != before_head:
                    bad("write-applied-on-unseen-state", "%s's write to share %d on %s was applied although the share there (seq %d) is not what "
                        "that writer had last been shown by this server (%s)" % (
                            wv["caller"], shnum, wv["callee"], struct.unpack(">Q", before_head[1:9])[0],
                            ("seq %d" % struct.unpack(">Q", seen[shnum][1:9])[0]) if shnum in seen else "no such share"))
                    break
        # (b') a writer whose write answer shows, on that server, a share it neither wrote in that call nor had been shown there
        # before (somebody else put it there since the survey) has met an uncoordinated writer: an overwrite must not
        # report success
        surprised = {}
        for wv in mon.writes:
            if wv["si"] != si or not isinstance(wv.get("res"), tuple) or len(wv["res"]) < 2 or not isinstance(wv["res"][1], dict):
                continue
            timeline = []
            for a_ in getattr(mon, "shown", []):
                if a_["caller"] == wv["caller"] and a_["callee"] == wv["callee"] and a_["n"] < wv["n"] and a_["si"] == si:
                    timeline.append((a_["n"], a_["heads"], a_.get("filtered")))
            known = {}
            for (n_, heads_, filtered_) in sorted(timeline, key=lambda t: t[0]):
                if filtered_:
                    known.update(heads_)
                else:
                    known = dict(heads_)
            for w2 in mon.writes:
                if w2["caller"] == wv["caller"] and w2["callee"] == wv["callee"] and w2["n"] < wv["n"] and w2["ok"] is True and w2["si"] == si:
                    for shnum in w2["tw"]:
                        known.setdefault(shnum, b"own")
            for shnum, lst in wv["res"][1].items():
                if shnum in wv["tw"] or not lst or not isinstance(lst[0], bytes) or not lst[0]:
                    continue
                if shnum not in known:
                    surprised.setdefault(wv["caller"], []).append((wv["callee"], shnum))
        # (b) per writer: refused writes must not end in silent success
        by_writer = {}
        for wv in mon.writes:
            by_writer.setdefault(wv["caller"], []).append(wv)
        for (wi, c, nodew, kind, data) in writers:
            if wi not in results:
                bad("writer-hung", "writer %d never finished although the queue drained" % wi)
                continue
            st, res = results[wi]
            mine = by_writer.get(c.sim_name, [])
            refused = [x for x in mine if x["ok"] is False]
            if st == "ok":
                probe("writer-ok")
                if kind == "overwrite" and refused:
                    # an overwrite does not retry: a refused test vector must surface as UncoordinatedWriteError
                    bad("refused-write-but-success", "writer %d (overwrite) had %d of its %d writes refused by test vectors yet reported success" % (
                        wi, len(refused), len(mine)))
                if kind == "overwrite" and surprised.get(c.sim_name):
                    probe("surprise-share-seen")
                    bad("surprise-share-but-success", "writer %d (overwrite) was shown shares it had never seen and did not write %r (server, share number) in "
                        "the answers to its writes -- another writer's work -- yet reported success" % (wi, surprised[c.sim_name][:4]))
                if refused:
                    probe("writer-ok-after-refusal-and-retry")
            else:
                probe("writer-err-" + err_name(res))
                from allmydata.mutable.common import UnrecoverableFileError
                # being unable to read/recover because of the other writer is also "noticed, not silent"
                if not res.check(UncoordinatedWriteError, NotEnoughServersError, NotEnoughSharesError, UnrecoverableFileError):
                    bad("wrong-error", "writer %d failed with %s: %s" % (wi, err_name(res), res.getTraceback()[-1500:]), sig="C12.wrong-error." + err_site(res))
        # (c) recoverability when (writers+1)*k <= N and nobody stopped midway
        recoverable = [v for v, shmap in vers.items() if len(shmap) >= k]
        if (len(writers) + 1) * k <= n and len(g.servers) >= 1:
            probe("roomy")
            if not recoverable:
                bad("nothing-recoverable", "(writers+1)*k = %d <= N = %d, every writer ran to completion, yet no version has k=%d distinct shares on disk: %r" % (
                    (len(writers) + 1) * k, n, k, {("seq%d" % v[1]): sorted(m) for v, m in vers.items()}))
        else:
            probe("tight")
        # a reader sees one of the contents that were written (or fails when nothing is recoverable)
        rd = g.add_client(k=k, happy=1, n=n)
        st, res = run(rd.create_node_from_uri(cap).download_best_version(), 300_000)
        bases = [data0] + [data for (wi, c, nodew, kind, data) in writers if kind == "overwrite"]
        tokens = {wi: b"|W%d:" % wi + data.hex().encode()[:24] for (wi, c, nodew, kind, data) in writers if kind != "overwrite"}
        only_modifiers = all(kind != "overwrite" for (wi, c, nodew, kind, data) in writers)
        if st == "ok":
            probe("final-read-ok")
            base_ = [b for b in bases if res.startswith(b)]
            rest = res[len(max(base_, key=len)):] if base_ else None
            ok_shape = rest is not None
            if ok_shape:
                r_ = rest
                for tk in sorted(tokens.values(), key=len, reverse=True):
                    r_ = r_.replace(tk, b"", 1)
                ok_shape = (r_ == b"")
            if not ok_shape:
                bad("clobbered-bytes", "final contents (%d bytes) are not a base written by someone plus tokens appended by the modifiers" % len(res))
            elif only_modifiers and not any(cfg.get("unreach") or []):
                # (with a partitioned grid two versions with the same sequence number can both stay recoverable, each out of
                # the other writer's reach; C12 promises detection per publish, not that modify()'s retries merge them)
                for wi, tk in tokens.items():
                    if results.get(wi, ("?",))[0] == "ok" and tk not in res:
                        bad("lost-update", "writer %d's modify() reported success but its change is missing from the final contents (the other writer's publish replaced it without either noticing)" % wi)
        elif st == "err":
            probe("final-read-err-" + err_name(res))
            if recoverable and (len(writers) + 1) * k <= n:
                bad("final-read-failed", "a version is recoverable from disk but the read failed with %s" % err_name(res), sig="C12.final-read-failed." + err_site(res))
        else:
            bad("final-read-hung", "final read never completed")
        # every successful overwrite writer: either its contents are final, or another writer's write came after (we cannot
        # order them from outside), so no per-writer final check beyond legality.
        probe("versions-on-disk-%d" % min(3, len(vers)))
        return finish(g, viol, probes, case, ("C12",))
    finally:
        g.close()


# ------------------------------------------------------------------------------------------
# profile: serial (C13 one client serializes operations on a mutable node)
# ------------------------------------------------------------------------------------------
def gen_serial(seed, tier, focus="C13"):
    ch = Chooser(seed)
    cfg = gen_common(ch, tier)
    cfg["fmt"] = ch.pick("config", "fmt", ["SDMF", "MDMF"])
    cfg["dir"] = ch.chance("config", "dir", 0.45)
    W = "workload"
    sz = sizes_for(cfg)
    ops = [["create", ch.pick(W, "csize", sz[1:]), ch.randint(W, "cpat", 1, 1 << 30)]]
    for i in range(ch.randint(W, "nops", 2, 4)):
        # how the node is obtained: 0 same cap string object, 1 an equal copy of the string, 2 write-cap + read-cap
        # (the shape a parent directory's child lookup uses), 3 through the parent directory (directory runs only)
        shape = ch.pick(W, ("shape", i), [0, 1, 2, 2, 3])
        if cfg["dir"]:
            ops.append(["dop", ch.pick(W, ("dkind", i), ["set", "set", "set", "delete", "delete_missing", "set_children", "list"]),
                        ch.randrange(W, ("name", i), 3), ch.randint(W, ("pat", i), 1, 1 << 30), shape])
        else:
            ops.append(["op", ch.pick(W, ("kind", i), ["download", "overwrite", "modify", "servermap", "modify", "upload"]),
                        ch.pick(W, ("size", i), sz[1:8]), ch.randint(W, ("pat", i), 1, 1 << 30),
                        shape, ch.chance(W, ("fail", i), 0.25)])
    faults = []
    for j in range(ch.weighted("faults", "nf", [(0, 4), (1, 2), (2, 1)])):
        faults.append([ch.pick("faults", ("kind", j), ["error", "stall", "disconnect_before"]), ch.randrange("faults", ("srv", j), cfg["nservers"]),
                       ch.pick("faults", ("meth", j), ["slot_testv_and_readv_and_writev", "slot_readv"]), ch.randint("faults", ("nth", j), 2, 8), 5.0])
    if not cfg["dir"] and ch.chance("faults", "after-map", 0.2):
        # shares larger than the 4000 bytes a map update caches, and most servers failing their first read after
        # the map query (once): the first retrieve attempt of a download fails although the file is recoverable, so
        # the operation takes its retry path while later operations are queued behind it
        cfg["knobs"]["mseg"] = 4096
        ops[0] = ["create", ch.pick(W, "big-csize", [9000, 13000]), ops[0][2]]
        faults = [["error", srv, "slot_readv", ch.pick("faults", ("after-map-nth", srv), [2, 2, 3]), 1.0]
                  for srv in ch.sample("faults", "after-map-srvs", range(cfg["nservers"]), max(1, cfg["nservers"] - ch.randint("faults", "after-map-keep", 0, 2)))]
    if ch.chance("faults", "foreign", 0.3):
        # another client holding the same write cap edits the object while this client's operations are queued: modify()
        # -based operations then meet UncoordinatedWriteError and take their back-off-and-retry path, which must stay
        # inside the operation's turn (the foreign edits only ever add their own marker / their own child name)
        cfg["foreign"] = [[ch.pick("faults", ("foreign-start", j), [0.0, 0.0005, 0.002, 0.006, 0.02, 0.08]), ch.randint("faults", ("foreign-pat", j), 1, 1 << 30)]
                          for j in range(ch.randint("faults", "nforeign", 1, 3))]
        cfg["net"]["jitter"] = ch.pick("config", "jitter-foreign", [0.005, 0.05, 0.05])
    return {"engine": "mutsim", "profile": "serial", "focus": "C13", "seed": seed, "cfg": cfg, "ops": ops, "faults": faults}


def exec_serial(case):
    from sim.runner import child_tmp
    from allmydata.mutable import filenode as fn_mod
    from allmydata.interfaces import NoSuchChildError
    cfg = case["cfg"]
    base = tempfile.mkdtemp(dir=child_tmp())
    viol, probes = [], {}

    def probe(nm, c=1):
        probes[nm] = probes.get(nm, 0) + c

    def bad(clause, detail, sig=None):
        viol.append({"clause": "C13.%s" % clause, "sig": sig or "C13.%s" % clause, "detail": detail})

    g = build_grid(case, base)
    intervals = []      # [storage index, name, start event, end event or None, request index, node object id]
    originals = {}
    # the seam: every whole-file operation goes through MutableFileNode._do_serialized(cb, ...); record when the
    # real code actually invokes cb and when cb's Deferred fires (nested helper calls inside cb are not operations)
    orig_ds = fn_mod.MutableFileNode._do_serialized
    originals["_do_serialized"] = orig_ds
    reqno = [0]
    requests = []       # [request index, storage index, cb name]

    foreign_ids = set()

    def ds_wrapper(self, cb, *a, **kw):
        if id(self) in foreign_ids:
            return orig_ds(self, cb, *a, **kw)
        reqno[0] += 1
        req = reqno[0]
        requests.append([req, self.get_storage_index(), getattr(cb, "__name__", "?")])

        def cb2(*a2, **kw2):
            rec = [self.get_storage_index(), getattr(cb, "__name__", "?"), R.events, None, req, id(self)]
            intervals.append(rec)
            d = defer.maybeDeferred(cb, *a2, **kw2)

            def fin(res, rec=rec):
                rec[3] = R.events
                return res
            d.addBoth(fin)
            return d
        return orig_ds(self, cb2, *a, **kw)
    fn_mod.MutableFileNode._do_serialized = ds_wrapper
    try:
        k, n = cfg["k"], cfg["n"]
        c = g.add_client(k=k, happy=1, n=n, fmt=cfg["fmt"])
        ver = MDMF_VERSION if cfg["fmt"] == "MDMF" else SDMF_VERSION
        creates = [op for op in case["ops"] if op[0] == "create"]
        op0 = creates[0] if creates else ["create", 10, 1]
        isdir = bool(cfg.get("dir")) and any(o[0] == "dop" for o in case["ops"])
        parent = None
        if isdir:
            st, parent = run(c.create_dirnode(version=ver))
            if st != "ok":
                return finish(g, viol, probes, case, ("C13",))
            st, node = run(c.create_dirnode(version=ver))
            if st != "ok":
                return finish(g, viol, probes, case, ("C13",))
            st, _ = run(parent.set_node(u"sub", node))
            if st != "ok":
                return finish(g, viol, probes, case, ("C13",))
        else:
            data0 = b"base:" + pat_bytes(op0[2], op0[1])
            st, node = run(c.create_mutable_file(MutableData(data0), version=ver))
            if st != "ok":
                return finish(g, viol, probes, case, ("C13",))
        settle(200_000)
        cap = node.get_uri()
        rocap = node.get_readonly_uri()
        # the property speaks of nodes obtained through the same capability string: use such a node from here on
        # (the object returned by create_mutable_file is not entered into the node cache)
        node = c.create_node_from_uri(cap)
        via_parent = None
        if isdir:
            st, via_parent = run(c.create_node_from_uri(parent.get_uri()).get(u"sub"))
            if st != "ok":
                return finish(g, viol, probes, case, ("C13",))
            settle(200_000)
        del intervals[:]
        del requests[:]
        target_si = node.get_storage_index()
        for fl in case.get("faults", []):
            kind, srv, meth, nth, secs = fl
            if srv < len(g.servers):
                g.net.add_fault({"kind": kind, "callee": g.servers[srv].name, "caller": c.sim_name, "method": meth, "nth": nth, "secs": secs})
        faultfree = not case.get("faults") and not cfg.get("foreign")
        results = []
        tokens = []
        if cfg.get("foreign"):
            c2 = g.add_client(k=k, happy=1, n=n, fmt=cfg["fmt"])
            node2 = c2.create_node_from_uri(cap)
            foreign_ids.add(id(node2._node if isdir else node2))
            foreign_keep = [node2]

            def foreign_edit(j, pat):
                probe("foreign-edit-started")
                if isdir:
                    d_ = node2.set_uri(u"foreign%d" % j, b"URI:LIT:" + base32.b2a(b"f%d" % pat), b"URI:LIT:" + base32.b2a(b"f%d" % pat))
                else:
                    tok_ = b"|F%d" % j
                    d_ = node2.modify(lambda old, servermap, first_time, tok_=tok_: old if tok_ in old else old + tok_)
                d_.addCallbacks(lambda r: probe("foreign-edit-ok"), lambda f: probe("foreign-edit-err-" + err_name(f)))
            for j, (start_, pat_) in enumerate(cfg["foreign"]):
                if start_:
                    dc = R.callLater(start_, foreign_edit, j, pat_)
                    dc.sim_label = "foreign-edit-%d" % j
                else:
                    foreign_edit(j, pat_)

        def obtain(shape):
            if shape is True:
                shape = 0
            elif shape is False:
                shape = 1
            if shape == 0:
                nd = c.create_node_from_uri(cap)
            elif shape == 1:
                nd = c.create_node_from_uri(bytes(bytearray(cap)))     # equal string, a distinct object
            elif shape == 2 or via_parent is None:
                nd = c.create_node_from_uri(cap, rocap)
            else:
                nd = via_parent
            probe("node-shape-%s" % shape)
            if nd is not node:
                bad("different-node-object", "one client returned two different node objects for the same capability string "
                    "(shape %r: 0/1 = cap alone, 2 = write-cap + read-cap, 3 = looked up in the parent directory)" % (shape,))
            return nd

        def lit(pat):
            return b"URI:LIT:" + base32.b2a(b"%d" % pat)

        for i, op in enumerate([o for o in case["ops"] if o[0] in ("op", "dop")]):
            fail = False
            if op[0] == "op":
                _, kind, size, pat, shape, fail = op
                fail = bool(fail) and kind == "modify"       # only a modifier can be made to fail on purpose
                nd = obtain(shape)
                data = pat_bytes(pat, size)
                if kind == "download":
                    d = nd.download_best_version()
                elif kind == "overwrite":
                    d = nd.overwrite(MutableData(data))
                elif kind == "upload":
                    # needs a servermap: request one through the node first (also serialized)
                    d = nd.get_servermap(MODE_WRITE)
                    d.addCallback(lambda sm, nd=nd, data=data: nd.upload(MutableData(data), sm))
                elif kind == "servermap":
                    d = nd.get_servermap(MODE_READ)
                else:
                    token = b"|T%d" % i
                    tokens.append((i, token))

                    def modifier(old, servermap, first_time, token=token, fail=fail):
                        if fail:
                            raise ValueError("modifier fails on purpose")
                        return old if token in old else old + token
                    d = nd.modify(modifier)
                name = None
            else:
                _, kind, name_i, pat, shape = op
                nd = obtain(shape)
                name = u"n%d" % name_i
                if kind == "set":
                    d = nd.set_uri(name, lit(pat), lit(pat))
                elif kind == "delete":
                    d = nd.delete(name, must_exist=False)
                elif kind == "delete_missing":
                    name = u"never-there"
                    fail = True
                    d = nd.delete(name, must_exist=True)
                elif kind == "set_children":
                    d = nd.set_children({name: (lit(pat), lit(pat)), u"extra": (lit(pat + 1), lit(pat + 1))})
                else:
                    d = nd.list()
                    name = None
            box = {}
            d.addCallbacks(lambda r, box=box: box.setdefault("r", ("ok", r)), lambda f, box=box: box.setdefault("r", ("err", f)))
            results.append((i, kind, fail, box, name))
        try:
            settle(400_000)
        except EventCap:
            bad("livelock", "operations never quiesce")
            return finish(g, viol, probes, case, ("C13",))
        deliberate_failure_seen = False
        for (i, kind, fail, box, name) in results:
            if "r" not in box:
                bad("op-hung", "operation %d (%s) never completed; a failed earlier operation must not block later ones (faults=%r)" % (i, kind, case.get("faults")),
                    sig="C13.op-hung")
                continue
            probe("op-" + box["r"][0])
            if fail:
                deliberate_failure_seen = True
                if box["r"][0] == "ok":
                    probe("deliberate-failure-did-not-fail")
                continue
            if box["r"][0] == "err":
                f = box["r"][1]
                stale = f.check(ValueError) and "on purpose" in str(f.value) or (f.check(NoSuchChildError) and "never-there" in str(f.value))
                if stale:
                    bad("blocked-by-earlier-failure", "operation %d (%s) was handed the failure of an earlier, unrelated operation (%s): "
                        "a failed operation must not block later ones" % (i, kind, str(f.value)[:200]))
                elif faultfree and kind != "upload":
                    # (upload() carries a servermap taken earlier; it may legitimately be stale by the time it runs)
                    bad("faultfree-op-failed", "no fault was injected, yet operation %d (%s)%s failed: %s" % (
                        i, kind, " after a deliberately failing operation" if deliberate_failure_seen else "", str(f.value)[:300]),
                        sig="C13.faultfree-op-failed.%s" % f.type.__name__)
        # every requested operation on the node was really started (not skipped), exactly once
        started = {}
        for r in intervals:
            started[r[4]] = started.get(r[4], 0) + 1
        for (req, si, nm) in requests:
            if si == target_si and started.get(req, 0) != 1:
                bad("op-not-run", "operation %s requested as #%d on the node was started %d times" % (nm, req, started.get(req, 0)))
                break
        # intervals of one logical node (one storage index) never overlap, and they start in request order
        mine = [r for r in intervals if r[0] == target_si]
        for a, b in zip(mine, mine[1:]):
            if a[3] is None or b[2] < a[3]:
                bad("overlap", "serialized operations on one mutable object overlap: %s [%s..%s] and %s [%s..%s]%s" % (
                    a[1], a[2], a[3], b[1], b[2], b[3], " (two node objects)" if a[5] != b[5] else ""))
                break
            if b[4] < a[4]:
                bad("order", "operation requested as #%d started before the one requested as #%d" % (b[4], a[4]))
                break
        probe("serialized-intervals", len(mine))
        if isdir:
            # every listing sees exactly the edits requested before it (operations run one at a time in request order);
            # an edit that failed may or may not have been applied
            poss_ = {}
            for (i, kind, fail, box, name) in results:
                ok_ = box.get("r", ("?",))[0] == "ok"
                if kind == "list":
                    if ok_:
                        got_names = set(nm_ for nm_ in box["r"][1] if not nm_.startswith(u"foreign"))     # (the other client's own children)
                        for nm in sorted(set(poss_) | (got_names - {u"never-there"})):
                            states = poss_.get(nm, {False})
                            if (nm in got_names) not in states:
                                bad("list-out-of-order", "list() requested as operation %d shows child %r %s, but the edits requested before it leave it %s "
                                    "(a read must wait for the operations requested before it and must not run ahead of them)" % (
                                        i, nm, "present" if nm in got_names else "absent", "present" if True in states else "absent"))
                                break
                        probe("dir-list-in-order-checked")
                    continue
                for nm in {"set": [name], "set_children": [name, u"extra"], "delete": [name]}.get(kind, []):
                    new_ = (kind != "delete")
                    poss_[nm] = {new_} if ok_ else (poss_.get(nm, {False}) | {new_})
            # reference model: apply the operations in request order; a failed edit may or may not have been applied
            st, listing = run(g.add_client(k=k, happy=1, n=n, fmt=cfg["fmt"]).create_node_from_uri(cap).list(), 400_000)
            if st == "ok":
                present = set(nm for nm in listing)
                poss = {}
                for (i, kind, fail, box, name) in results:
                    ok = box.get("r", ("?",))[0] == "ok"
                    names = {"set": [name], "set_children": [name, u"extra"], "delete": [name]}.get(kind, [])
                    for nm in names:
                        new = (kind != "delete")
                        if ok:
                            poss[nm] = {new}
                        else:
                            poss[nm] = poss.get(nm, {False}) | {new}
                for nm, states in sorted(poss.items()):
                    if (nm in present) not in states:
                        bad("lost-update", "directory edits through one client lost a change: child %r is %s in the final listing, "
                            "but applying the operations in request order leaves it %s" % (
                                nm, "present" if nm in present else "absent", "present" if True in states else "absent"))
                        break
                probe("dir-listing-compared")
        else:
            # no lost update among successful modifies that followed no overwrite/upload
            st, final = run(c.create_node_from_uri(cap).download_best_version(), 300_000)
            if st == "ok":
                # (a failed overwrite may still have replaced the contents, so every *requested* replacement counts)
                # (an 'upload' is requested in two steps -- the servermap now, the upload itself when the servermap has arrived,
                # i.e. after everything that was requested back-to-back -- so it replaces the results of all of them)
                last_replace = max([i for (i, kind, fail, box, name) in results if kind == "overwrite"]
                                   + [len(results) for (i, kind, fail, box, name) in results if kind == "upload"] + [-1])
                for (i, token) in tokens:
                    box = [b for (j, kd, fl, b, nm) in results if j == i][0]
                    if box.get("r", ("?",))[0] == "ok" and i > last_replace and token not in final:
                        bad("lost-update", "modify #%d reported success and no later overwrite was requested, yet its change is missing from the final contents" % i)
                    # operations run in request order and none starts before the previous one finished: whatever a modify
                    # requested *before* a successful overwrite changed is gone once that overwrite has completed
                    later_ok_overwrite = [j for (j, kd, fl, b, nm) in results if j > i and kd == "overwrite" and b.get("r", ("?",))[0] == "ok"]
                    if later_ok_overwrite and token in final:
                        bad("earlier-change-after-overwrite", "the change of modify #%d reappears in the final contents although overwrite #%d, requested after it, "
                            "completed successfully: part of the modify ran after a later operation (foreign edits=%r)" % (i, later_ok_overwrite[0], cfg.get("foreign")))
        return finish(g, viol, probes, case, ("C13",))
    finally:
        for nm, orig in originals.items():
            setattr(fn_mod.MutableFileNode, nm, orig)
        g.close()


# ------------------------------------------------------------------------------------------
# profile: repair (C14 mutable check and repair preserve the newest content)
# ------------------------------------------------------------------------------------------
def gen_repair(seed, tier, focus="C14"):
    ch = Chooser(seed)
    cfg = gen_common(ch, tier)
    cfg["fmt"] = ch.pick("config", "fmt", ["SDMF", "MDMF"])
    cfg["nservers"] = max(cfg["nservers"], cfg["n"])       # room for N distinct shares, one per server
    W = "workload"
    sz = sizes_for(cfg)
    nver = ch.randint(W, "nver", 1, 3)
    cfg["versions"] = [[ch.pick(W, ("size", v), sz[1:10]), ch.randint(W, ("pat", v), 1, 1 << 30)] for v in range(nver)]
    cfg["competing"] = ch.chance(W, "competing", 0.35)      # a second writer publishes the same seqnum as the last version
    layout = []
    # bias some layouts towards the states the property singles out: an unrecoverable newer version (most shares rolled
    # back to one older version) and two recoverable versions with the same sequence number
    bias = ch.pick("faults", "bias", ["none", "none", "none", "mostly-older" if nver >= 2 else "none", "split-competing" if cfg["competing"] else "none"])
    cfg["bias"] = bias
    common_old = ch.randrange("faults", "common-old", 8)
    for sh in range(cfg["n"]):
        if bias == "mostly-older":
            wts = [("newest", 2.5), ("missing", 0.5), ("older", 6), ("competing", 0), ("data-flip", 0.3)]
        elif bias == "split-competing":
            wts = [("newest", 4), ("missing", 0.7), ("older", 0.5), ("competing", 4), ("data-flip", 0.3)]
        else:
            wts = [("newest", 6), ("missing", 1.5), ("older", 1.5), ("competing", 1.5 if cfg["competing"] else 0), ("data-flip", 1.0)]
        fate = ch.weighted("faults", ("fate", sh), wts)
        layout.append([sh, fate, common_old if bias == "mostly-older" else ch.randrange("faults", ("oldv", sh), 8), ch.randrange("faults", ("p1", sh), 1 << 30)])
    cfg["layout"] = layout
    # a share number lost on its server and another share number doubled in its place: the number of share *copies*
    # stays N while the number of distinct shares drops
    if cfg["n"] >= 2 and ch.chance("faults", "dup", 0.3):
        a, b = ch.sample("faults", "dup-pair", range(cfg["n"]), 2)
        layout[a] = [a, "dup-of", b, 0]
    if ch.chance(W, "car", 0.4):
        ops = [["check", ch.chance(W, "verify", 0.5)], ["check_and_repair", ch.chance(W, "verify2", 0.4)]]
    else:
        ops = [["check", ch.chance(W, "verify", 0.5)], ["repair", ch.chance(W, "force", 0.4)]]
    return {"engine": "mutsim", "profile": "repair", "focus": "C14", "seed": seed, "cfg": cfg, "ops": ops, "faults": []}


def exec_repair(case):
    from sim.runner import child_tmp
    from allmydata.monitor import Monitor
    from allmydata.mutable.repairer import MustForceRepairError
    cfg = case["cfg"]
    base = tempfile.mkdtemp(dir=child_tmp())
    viol, probes = [], {}

    def probe(nm, c=1):
        probes[nm] = probes.get(nm, 0) + c

    def bad(clause, detail, sig=None):
        viol.append({"clause": "C14.%s" % clause, "sig": sig or "C14.%s" % clause, "detail": detail})

    g = build_grid(case, base)
    try:
        k, n = cfg["k"], cfg["n"]
        w = g.add_client(k=k, happy=1, n=n, fmt=cfg["fmt"])
        ver = MDMF_VERSION if cfg["fmt"] == "MDMF" else SDMF_VERSION
        published = {}
        images = []          # per version: {shnum: raw container} (content of a share number does not depend on the server)
        node = cap = si = None
        for vi, (size, pat) in enumerate(cfg["versions"]):
            data = pat_bytes(pat, size) + b"|v%d" % vi
            if node is None:
                st, res = run(w.create_mutable_file(MutableData(data), version=ver))
                if st == "ok":
                    node, cap = res, res.get_uri()
                    si = si_of_cap(cap)
            else:
                st, res = run(node.overwrite(MutableData(data)))
            settle(300_000)
            if st != "ok":
                return finish(g, viol, probes, case, ("C14",))
            state = {(s.name, shnum): raw for s in g.servers for shnum, raw in s.shares_of(si).items()}
            vers = versions_on_disk({kx: parse_mutable_container(v) for kx, v in state.items()})
            newest = max(vers, key=lambda v: v[1])
            published[newest] = data
            images.append((newest, {sh: raw for (nm, sh), raw in state.items() if share_version(parse_mutable_container(raw)) == newest}))
        where = {sh: nm for (nm, sh) in state}          # server that holds each share number after the last publish
        newest_v, newest_img = images[-1]
        competing_v = competing_img = None
        if cfg["competing"] and len(images) >= 1:
            # second writer: restore the disks to the state before the last publish, publish other contents, harvest, restore
            prev_state = dict(state)
            if len(images) >= 2:
                for (nm, sh), raw in list(state.items()):
                    old = images[-2][1].get(sh)
                    p = g.server_by_name(nm).share_path(si, sh)
                    if old is not None:
                        with open(p, "wb") as f:
                            f.write(old)
                w2 = g.add_client(k=k, happy=1, n=n, fmt=cfg["fmt"])
                data2 = b"competing contents " + pat_bytes(777, 40)
                st2, r2 = run(w2.create_node_from_uri(cap).overwrite(MutableData(data2)))
                settle(300_000)
                if st2 == "ok":
                    st_ = {(s.name, shnum): raw for s in g.servers for shnum, raw in s.shares_of(si).items()}
                    vv = versions_on_disk({kx: parse_mutable_container(v) for kx, v in st_.items()})
                    cv = max(vv, key=lambda v: v[1])
                    if cv[1] == newest_v[1] and cv != newest_v:
                        competing_v = cv
                        competing_img = {sh: raw for (nm, sh), raw in st_.items() if share_version(parse_mutable_container(raw)) == cv}
                        published[cv] = data2
                        probe("competing-version-built")
                for (nm, sh), raw in prev_state.items():
                    with open(g.server_by_name(nm).share_path(si, sh), "wb") as f:
                        f.write(raw)
        # ---- lay out the shares
        for (sh, fate, oldv, p1) in cfg["layout"]:
            nm = where.get(sh)
            if nm is None:
                continue
            p = g.server_by_name(nm).share_path(si, sh)
            if fate == "missing":
                os.unlink(p)
            elif fate == "older" and len(images) >= 2:
                old = images[oldv % (len(images) - 1)][1].get(sh)
                if old is not None:
                    with open(p, "wb") as f:
                        f.write(old)
            elif fate == "competing" and competing_img and sh in competing_img:
                with open(p, "wb") as f:
                    f.write(competing_img[sh])
            elif fate == "data-flip":
                with open(p, "rb") as f:
                    raw = f.read()
                new = mutate_mut_share(raw, "data", p1, 1, {})
                with open(p, "wb") as f:
                    f.write(new)
            elif fate == "dup-of":
                other = newest_img.get(oldv)
                srv = g.server_by_name(nm)
                if other is not None and oldv not in srv.shares_of(si):
                    os.unlink(p)
                    # the container carries this server's own write enabler: keep the 468-byte container header of the share
                    # being replaced (same server, same enabler, same leases) and take the share data from the other image
                    with open(srv.share_path(si, oldv), "wb") as f:
                        f.write(dup_image_for_server(state[(nm, sh)], other))
            probe("fate-" + fate)
        # ---- ground truth
        img_by_v = {v: {sh: parse_mutable_container(raw) for sh, raw in img.items()} for v, img in images}
        if competing_v:
            img_by_v[competing_v] = {sh: parse_mutable_container(raw) for sh, raw in competing_img.items()}
        before = {(s.name, shnum): raw for s in g.servers for shnum, raw in s.shares_of(si).items()}

        def truth(verify):
            present = {}    # version -> set(shnum) counted as good by this kind of check
            for (nm, sh), raw in before.items():
                d = parse_mutable_container(raw)
                v = share_version(d)
                if v is None:
                    continue
                if verify and d != img_by_v.get(v, {}).get(sh):
                    continue
                present.setdefault(v, set()).add(sh)
            return present
        for op in case["ops"]:
            if op[0] == "check":
                verify = op[1]
                t = truth(verify)
                allv = truth(False)
                ck = g.add_client(k=k, happy=1, n=n)
                stc, cr = run(ck.create_node_from_uri(cap).check(Monitor(), verify=verify), 300_000)
                if stc != "ok":
                    bad("check-failed", "check(verify=%s): %s" % (verify, err_name(cr) if stc == "err" else stc), sig="C14.check-failed." + (err_site(cr) if stc == "err" else stc))
                    continue
                rec = [v for v, shs in t.items() if len(shs) >= k]
                corrupt_present = verify and any(d != img_by_v.get(share_version(d), {}).get(sh) for (nm, sh), d in
                                                 ((kx, parse_mutable_container(raw)) for kx, raw in before.items()) if share_version(d) is not None)
                want_healthy = (len(rec) == 1 and len(t[rec[0]]) >= n and len(allv) == 1 and not corrupt_present)
                probe("check-%s-%s" % ("verify" if verify else "noverify", "healthy" if want_healthy else "unhealthy"))
                if cr.is_healthy() != want_healthy:
                    bad("healthy", "check(verify=%s).is_healthy()=%s; ground truth: versions %r (recoverable: %d), N=%d k=%d, layout=%r" % (
                        verify, cr.is_healthy(), {("seq%d" % v[1]): sorted(s_) for v, s_ in t.items()}, len(rec), n, k, cfg["layout"]))
            else:
                car = (op[0] == "check_and_repair")
                force = False if car else op[1]
                t = truth(False)       # repair works from a servermap (prefix-level knowledge)
                rec = [v for v, shs in t.items() if len(shs) >= k]
                best_seq = max([v[1] for v in rec] or [-1])
                unrec_newer = any(v[1] > best_seq and len(shs) < k for v, shs in t.items()) and bool(rec)
                needs_merge = len([v for v in rec if v[1] == best_seq]) > 1
                must_force = unrec_newer or needs_merge
                if car:
                    # the one-call form: check, then repair what is unhealthy -- never forced
                    str_, crr = run(node.check_and_repair(Monitor(), verify=op[1]), 500_000)
                    settle(300_000)
                    after = {(s.name, shnum): raw for s in g.servers for shnum, raw in s.shares_of(si).items()}
                    probe("check_and_repair-%s" % ("must-force-layout" if must_force else "plain"))
                    if str_ != "ok":
                        probe("check_and_repair-err-" + (err_name(crr) if str_ == "err" else str_))
                        if after != before and must_force:
                            bad("repair-without-force", "check_and_repair failed (%s) yet share files changed although %s" % (
                                err_name(crr) if str_ == "err" else str_, "an unrecoverable newer version exists" if unrec_newer else "two recoverable versions share the highest seqnum"))
                        continue
                    if must_force:
                        if after != before:
                            bad("repair-without-force", "check_and_repair (which never forces) rewrote shares although %s" % (
                                "an unrecoverable newer version exists" if unrec_newer else "two recoverable versions share the highest seqnum"))
                        continue
                    if not crr.get_repair_attempted():
                        probe("check_and_repair-no-repair-attempted")
                        tv = truth(op[1])
                        recv = [v for v, shs in tv.items() if len(shs) >= k]
                        if rec and len(recv) == 1 and len(tv[recv[0]]) < n and len(truth(False)) == 1:
                            bad("unhealthy-not-repaired", "check_and_repair(verify=%s) attempted no repair although only %d of N=%d distinct shares "
                                "of the single version are good" % (op[1], len(tv[recv[0]]), n))
                        continue
                    # judge the repair as below
                    class _RR(object):
                        def get_successful(self_):
                            return crr.get_repair_successful()
                    rr = _RR()
                else:
                    stc, cr = run(node.check(Monitor(), verify=False), 300_000)
                    if stc != "ok":
                        continue
                    str_, rr = run(node.repair(cr, force=force), 400_000)
                    settle(300_000)
                    after = {(s.name, shnum): raw for s in g.servers for shnum, raw in s.shares_of(si).items()}
                if str_ == "err" and rr.check(MustForceRepairError):
                    probe("must-force-raised")
                    if not must_force:
                        bad("spurious-must-force", "repair(force=%s) raised MustForceRepairError but there is neither an unrecoverable newer version nor two recoverable versions with the same seqnum" % force)
                    if after != before:
                        bad("refused-repair-changed-shares", "repair refused with MustForceRepairError but share files changed")
                    continue
                if must_force and not force:
                    bad("repair-without-force", "repair(force=False) went ahead (%s) although %s" % (
                        str_, "an unrecoverable newer version exists" if unrec_newer else "two recoverable versions share the highest seqnum"))
                    continue
                t_intact = truth(True)
                best_candidates = [v for v in rec if v[1] == best_seq]
                best_intact_ok = bool(best_candidates) and len(t_intact.get(max(best_candidates, key=lambda v: v[2]), ())) >= k
                if str_ == "ok" and rr.get_successful():
                    probe("repair-ok")
                    best = max([v for v in rec if v[1] == best_seq], key=lambda v: v[2])
                    rd = g.add_client(k=k, happy=1, n=n)
                    st3, got = run(rd.create_node_from_uri(cap).download_best_version(), 300_000)
                    if st3 != "ok":
                        bad("unreadable-after-repair", "read after a successful repair: %s" % (err_name(got) if st3 == "err" else st3))
                    elif not needs_merge and got != published.get(best):
                        bad("contents-changed", "repair changed the contents: expected the pre-repair best version (seq %d)" % best[1])
                    elif needs_merge and got not in [published[v] for v in rec if v[1] == best_seq]:
                        bad("contents-changed", "forced repair produced contents that are none of the competing versions")
                    va = versions_on_disk({kx: parse_mutable_container(v) for kx, v in after.items()})
                    top = max(va, key=lambda v: v[1])
                    if len(va[top]) < n and len(g.servers) >= n:
                        bad("not-n-shares", "successful repair left only %d distinct shares of the newest version (N=%d)" % (len(va[top]), n))
                elif str_ == "ok":
                    probe("repair-unsuccessful")
                    if rec and best_intact_ok:
                        bad("repair-unsuccessful", "repair reported failure although the best version has k intact shares")
                elif str_ == "err":
                    probe("repair-err-" + err_name(rr))
                    if rec and best_intact_ok and not case.get("faults"):
                        bad("repair-failed", "repair failed with %s although the best version has k intact shares: %s" % (err_name(rr), rr.getTraceback()[-600:]),
                            sig="C14.repair-failed." + err_site(rr))
        return finish(g, viol, probes, case, ("C14",))
    finally:
        g.close()
