"""storesim — one real StorageServer (through FoolscapStorageServer for immutable allocation,
so disconnect canaries are the production path) driven by an operation history and compared,
operation by operation, with a reference model (DESIGN §3, C22-C25, C28).

The clock is the simulated reactor (30-minute bucket time-outs are reactor timers); the disk
is a real scratch directory with a *model* free-space function substituted at
fileutil.get_available_space (the seam test_storage patches too).
"""
import hashlib
import os
import struct

from sim import boot
from sim.choice import Chooser
from sim.reactor import EPOCH

R = boot.install()

from allmydata.storage import server as ss_mod, immutable as imm_mod, mutable as mut_mod   # noqa: E402
from allmydata.storage.server import StorageServer, FoolscapStorageServer                 # noqa: E402
from allmydata.storage.immutable import ShareFile                                          # noqa: E402
from allmydata.storage.mutable import MutableShareFile                                     # noqa: E402
from allmydata.storage import immutable_schema, mutable_schema                             # noqa: E402
from allmydata.storage.common import storage_index_to_dir                                  # noqa: E402
from allmydata.interfaces import (ConflictingWriteError, DataTooLargeError, NoSpace,       # noqa: E402
                                  BadWriteEnablerError)
from allmydata.util import fileutil                                                        # noqa: E402

LEASE_TIME = 31 * 24 * 60 * 60
BUCKET_TIMEOUT = 30 * 60


def pat_bytes(pat, n, off=0):
    """Deterministic pseudo-random bytes stream #pat, bytes [off, off+n)."""
    if n <= 0:
        return b""
    out = bytearray()
    first = off // 64
    last = (off + n - 1) // 64
    for blk in range(first, last + 1):
        out += hashlib.blake2b(struct.pack(">QQ", pat, blk), digest_size=64).digest()
    s = off - first * 64
    return bytes(out[s:s + n])


def si_of(i):
    return hashlib.sha256(b"si%d" % i).digest()[:16]


def secret_of(kind, i):
    return hashlib.sha256(b"%s-%d" % (kind.encode(), i)).digest()


class Canary(object):
    """What foolscap hands remote_allocate_buckets: notifyOnDisconnect / dontNotifyOnDisconnect."""
    def __init__(self):
        self.cbs = {}
        self.n = 0

    def notifyOnDisconnect(self, f, *a, **kw):
        self.n += 1
        self.cbs[self.n] = (f, a, kw)
        return self.n

    def dontNotifyOnDisconnect(self, marker):
        self.cbs.pop(marker, None)

    def disconnect(self):
        cbs, self.cbs = self.cbs, {}
        for k in sorted(cbs):
            f, a, kw = cbs[k]
            f(*a, **kw)


_REAL_GET_AVAILABLE_SPACE = fileutil.get_available_space


class ModelDisk(object):
    """capacity - bytes present under sharedir - reserved; None capacity = unlimited."""
    def __init__(self, capacity, used_fn):
        self.capacity = capacity
        self.used_fn = used_fn
        self.calls = 0

    def available(self, whichdir, reserved_space):
        self.calls += 1
        if self.capacity is None:
            return 2 ** 40
        # bytes really consumed (sparse files: only what was written), as statvfs would see it
        return max(0, self.capacity - self.used_fn() - reserved_space)


def set_container_schema(imm_version, mut_version):
    """Select the container version new shares are created with (v1 = cleartext lease secrets,
    v2 = hashed).  The production constructors take `schema=` as their last default argument."""
    isch = immutable_schema.schema_from_version(imm_version)
    d = list(ShareFile.__init__.__defaults__)
    d[-1] = isch
    ShareFile.__init__.__defaults__ = tuple(d)
    msch = [s for s in mutable_schema.ALL_SCHEMAS if s.version == mut_version][0]
    d = list(MutableShareFile.__init__.__defaults__)
    d[-1] = msch
    MutableShareFile.__init__.__defaults__ = tuple(d)


class Violation(Exception):
    pass


class Store(object):
    """Real server + model, executes ops, collects violations."""

    def __init__(self, basedir, cfg):
        self.cfg = cfg
        self.basedir = basedir
        self.disk = ModelDisk(cfg.get("capacity"), self.model_used)
        self.desync = False
        self.imm = {}
        self.mut = {}
        self.writers = {}
        if cfg.get("statvfs"):
            # lower seam: the real fileutil.get_available_space / get_disk_stats run on a simulated statvfs() whose
            # free-for-root and free-for-ordinary-users figures differ (ext4 root reserve, quotas)
            import collections
            SV = collections.namedtuple("SV", "f_frsize f_blocks f_bfree f_bavail")
            disk, root_extra = self.disk, cfg.get("root_reserve", 0)

            def statvfs(path):
                disk.calls += 1
                if disk.capacity is None:
                    return SV(1, 2 ** 42, 2 ** 41, 2 ** 41)
                free_user = max(0, disk.capacity - disk.used_fn())
                return SV(1, disk.capacity + root_extra + 10 ** 6, free_user + root_extra, free_user)
            os.statvfs = statvfs                                  # process-local (forked child)
            fileutil.get_available_space = _REAL_GET_AVAILABLE_SPACE
        else:
            fileutil.get_available_space = self.disk.available   # seam; process-local (forked child)
        self.viol = []
        self.stats = {"ops": 0, "faults": {}, "probes": {}}
        self.nodeid = b"\x5a" * 20
        self.start_server()
        # model: imm (si_i, shnum) -> dict(state, size, data, mask, leases, upload)
        #        writers wid -> dict(key, conn, closed); mut (si_i, shnum) -> dict(data, we, leases)
        self.next_wid = 0
        self.conns = {}
        self.schema = (2, 2)
        self.share_schema = {}   # key -> container version it was created with

    # -- server lifecycle ------------------------------------------------------
    def start_server(self):
        cfg = self.cfg
        self.ss = StorageServer(self.basedir, self.nodeid,
                                reserved_space=cfg.get("reserved", 0),
                                readonly_storage=cfg.get("readonly", False),
                                clock=R)
        # crawlers re-arm for ever; they have their own engine (crawlsim)
        self.ss.bucket_counter.disownServiceParent()
        self.ss.lease_checker.disownServiceParent()
        self.fss = FoolscapStorageServer(self.ss)

    def model_used(self):
        used = 0
        for k, v in self.imm.items():
            nl = len([l for l in v["leases"] if l])
            if v["state"] == "final":
                used += 12 + v["size"] + 72 * nl
            else:
                used += 12 + sum(v["mask"]) + 72 * nl
        for k, v in self.mut.items():
            used += 468 + len(v["data"]) + 4 + 92 * max(0, len(v["leases"]) - 4)
        return used

    def probe(self, name):
        self.stats["probes"][name] = self.stats["probes"].get(name, 0) + 1

    def bad(self, prop, clause, detail, sig=None):
        self.viol.append({"clause": "%s.%s" % (prop, clause), "sig": sig or "%s.%s" % (prop, clause),
                          "detail": detail})

    def canary(self, conn):
        if conn not in self.conns:
            self.conns[conn] = Canary()
        return self.conns[conn]

    # -- model helpers -----------------------------------------------------------
    def m_leases_add_or_renew(self, leases, renew_i, cancel_i, now):
        """leases: list of dict or None (None = blanked slot of a mutable container)."""
        for l in leases:
            if l and l["renew"] == renew_i:
                l["expiry"] = max(l["expiry"], int(now + LEASE_TIME))
                return "renewed"
        new = {"renew": renew_i, "cancel": cancel_i, "expiry": int(now + LEASE_TIME)}
        for i, l in enumerate(leases):
            if l is None:
                leases[i] = new
                return "added"
        leases.append(new)
        return "added"

    def final_imm_of(self, si_i):
        return {k[1]: v for k, v in self.imm.items() if k[0] == si_i and v["state"] == "final"}

    # -- ops -------------------------------------------------------------------
    def run_op(self, op):
        self.stats["ops"] += 1
        kind = op[0]
        self.last_op = kind
        getattr(self, "op_" + kind)(*op[1:])

    def op_schema(self, iv, mv):
        set_container_schema(iv, mv)
        self.schema = (iv, mv)

    def op_alloc(self, si_i, shnums, size, sec_i, conn):
        si = si_of(si_i)
        now = R.seconds()
        # what an unprivileged process may still use, from the harness's own disk model (not from the server's own reckoning)
        if self.disk.capacity is None:
            avail_before = 2 ** 40
        else:
            avail_before = max(0, self.disk.capacity - self.model_used() - self.cfg.get("reserved", 0))
        inprog_before = sum(w["size"] for w in self.writers.values() if not w["closed"])
        real_alloc_before = self.ss.allocated_size()
        if real_alloc_before != inprog_before:
            self.bad("C28", "allocated-size", "allocated_size()=%d but model in-progress=%d" % (real_alloc_before, inprog_before))
        finals = self.final_imm_of(si_i)
        try:
            already, writers = self.fss.remote_allocate_buckets(
                si, secret_of("renew", sec_i), secret_of("cancel", sec_i), set(shnums), size,
                self.canary(conn))
        except NoSpace:
            self.probe("alloc-nospace-exception")
            # lease could not be added to an existing share; partial lease updates possible.
            for v in finals.values():
                v["leases_unsure"] = True
            return
        # model: all final shares of the SI are reported and get the lease
        if set(already) != set(finals):
            self.bad("C22", "alreadygot", "allocate reported %r, model has complete shares %r" % (sorted(already), sorted(finals)))
        for v in finals.values():
            self.m_leases_add_or_renew(v["leases"], sec_i, sec_i, now)
        accepted = sorted(writers)
        expect_candidates = [n for n in sorted(set(shnums)) if (si_i, n) not in self.imm]
        not_allowed = [n for n in accepted if n not in expect_candidates]
        if not_allowed:
            self.bad("C22", "alloc-existing", "writer handed out for share(s) %r that are complete or in progress" % (not_allowed,))
        # space (C28)
        total_new = len(accepted) * size
        if self.cfg.get("readonly") and accepted:
            self.bad("C28", "readonly-accepts", "read-only server accepted shares %r of allocated size %d" % (accepted, size),
                     sig="C28.readonly-accepts.size%s" % ("0" if size == 0 else ">0"))
        if self.disk.capacity is not None and accepted:
            if total_new + inprog_before > avail_before:
                self.bad("C28", "overcommit", "accepted %d new bytes with %d in progress but only %d available (capacity=%r reserved=%r)" % (
                    total_new, inprog_before, avail_before, self.disk.capacity, self.cfg.get("reserved", 0)))
            self.probe("alloc-limited-accepted")
        if self.disk.capacity is None and not self.cfg.get("readonly"):
            if accepted != expect_candidates:
                self.bad("C22", "alloc-refused", "unlimited server accepted %r, expected %r" % (accepted, expect_candidates))
        elif len(accepted) < len(expect_candidates):
            self.probe("alloc-refused-for-space")
        for n in accepted:
            wid = self.next_wid
            self.next_wid += 1
            self.writers[wid] = {"key": (si_i, n), "conn": conn, "closed": False, "size": size,
                                 "w": writers[n], "last": now}
            self.imm[(si_i, n)] = {"state": "writing", "size": size, "data": bytearray(size),
                                   "mask": bytearray(size), "upload": sec_i * 7919 + si_i * 131 + n + 1,
                                   "leases": [{"renew": sec_i, "cancel": sec_i, "expiry": int(now + LEASE_TIME)}],
                                   "wid": wid}
            self.share_schema[(si_i, n)] = self.schema[0]
        self.check_alloc_size()

    def check_alloc_size(self):
        inprog = sum(w["size"] for w in self.writers.values() if not w["closed"])
        real = self.ss.allocated_size()
        if real != inprog:
            self.bad("C28", "allocated-size", "allocated_size()=%d but model in-progress=%d" % (real, inprog))

    def _writer(self, wsel):
        wids = sorted(self.writers)
        if not wids:
            return None, None
        wid = wids[wsel % len(wids)]
        return wid, self.writers[wid]

    def op_write(self, wsel, off, ln, pat):
        wid, w = self._writer(wsel)
        if w is None:
            return
        sh = self.imm.get(w["key"])
        size = w["size"]
        off = off % (size + 2) if size else off % 2
        if pat == 0 and sh is not None and sh.get("wid") == wid:
            data = pat_bytes(sh["upload"], ln, off)
        else:
            data = pat_bytes(pat or 1, ln, off)
        if w["closed"]:
            # writing after close/abort is a client bug; the server must refuse and change nothing
            try:
                w["w"].remote_write(off, data)
            except AssertionError:
                self.probe("write-after-close-refused")
            except Exception as e:
                self.probe("write-after-close-refused")
            else:
                self.bad("C22", "write-after-close", "write accepted on a closed/aborted writer")
            return
        w["last"] = R.seconds()   # the server re-arms the 30-minute timer on every write attempt
        expect = set()
        if off + len(data) > size:
            expect.add("toolarge")
        for i in range(min(len(data), max(0, size - off))):
            if sh["mask"][off + i] and sh["data"][off + i] != data[i]:
                expect.add("conflict")   # both refusals are legitimate when both apply
                break
        if not expect:
            expect.add("ok")
        try:
            w["w"].remote_write(off, data)
            got = "ok"
        except ConflictingWriteError:
            got = "conflict"
        except DataTooLargeError:
            got = "toolarge"
        self.probe("imm-write-" + got)
        if got not in expect:
            self.bad("C22", "write-outcome", "write(off=%d,len=%d) on share %r: server said %s, model says %s" % (off, len(data), w["key"], got, sorted(expect)))
        if got == "ok":
            sh["data"][off:off + len(data)] = data
            for i in range(off, off + len(data)):
                sh["mask"][i] = 1
            w["last"] = R.seconds()
        # stored bytes must equal the model after every write, accepted or refused
        self.check_incoming_bytes(w)

    def incoming_path(self, key):
        return os.path.join(self.ss.incomingdir, storage_index_to_dir(si_of(key[0])), "%d" % key[1])

    def final_path(self, key):
        return os.path.join(self.ss.sharedir, storage_index_to_dir(si_of(key[0])), "%d" % key[1])

    def check_incoming_bytes(self, w):
        sh = self.imm[w["key"]]
        p = self.incoming_path(w["key"])
        try:
            with open(p, "rb") as f:
                raw = f.read()
        except FileNotFoundError:
            self.bad("C22", "incoming-missing", "in-progress share %r has no file under incoming/" % (w["key"],))
            return
        body = raw[12:12 + sh["size"]]
        body = body + b"\x00" * (sh["size"] - len(body))
        if body != bytes(sh["data"]):
            self.bad("C22", "stored-bytes", "in-progress share %r bytes differ from the bytes accepted so far" % (w["key"],))

    def op_close(self, wsel):
        wid, w = self._writer(wsel)
        if w is None or w["closed"]:
            return
        w["w"].remote_close()
        w["closed"] = True
        sh = self.imm[w["key"]]
        sh["state"] = "final"
        self.probe("imm-close" + ("" if all(sh["mask"]) else "-partial"))
        self.check_alloc_size()

    def op_failclose(self, wsel, what, then):
        """The final move of close() hits a file-system error (EIO); the client then aborts or loses its connection.
        The upload was not completed: nothing of it may stay behind, and its reservation is released."""
        wid, w = self._writer(wsel)
        if w is None or w["closed"]:
            return
        import errno
        orig = getattr(fileutil, what)
        fired = []

        def failing(*a, **kw):
            if not fired:
                fired.append(1)
                raise OSError(errno.EIO, "injected I/O error in %s" % what)
            return orig(*a, **kw)
        setattr(fileutil, what, failing)
        try:
            try:
                w["w"].remote_close()
                raised = False
            except OSError:
                raised = True
        finally:
            setattr(fileutil, what, orig)
        if not raised:
            # (make_dirs is not reached when the bucket directory already exists, etc.): an ordinary close
            w["closed"] = True
            self.imm[w["key"]]["state"] = "final"
            self.probe("imm-close")
            self.check_alloc_size()
            return
        self.probe("imm-close-io-error")
        if then == "abort":
            w["w"].remote_abort()
            self._gone(wid, w, "abort-after-failed-close")
        else:
            c = self.conns.get(w["conn"])
            if c is not None:
                c.disconnect()
                for wid2, w2 in sorted(self.writers.items()):
                    if w2["conn"] == w["conn"] and not w2["closed"]:
                        self._gone(wid2, w2, "disconnect")
        self.check_alloc_size()

    def _gone(self, wid, w, why):
        w["closed"] = True
        key = w["key"]
        if self.imm.get(key, {}).get("wid") == wid and self.imm[key]["state"] == "writing":
            del self.imm[key]
            self.share_schema.pop(key, None)
        self.probe("imm-" + why)

    def op_abort(self, wsel):
        wid, w = self._writer(wsel)
        if w is None:
            return
        was_closed = w["closed"]
        w["w"].remote_abort()
        if not was_closed:
            self._gone(wid, w, "abort")
        self.check_alloc_size()

    def op_disconnect(self, conn):
        c = self.conns.get(conn)
        if c is None:
            return
        c.disconnect()
        for wid, w in sorted(self.writers.items()):
            if w["conn"] == conn and not w["closed"]:
                self._gone(wid, w, "disconnect")
        self.check_alloc_size()

    def op_advance(self, seconds):
        R.advance(seconds)
        now = R.seconds()
        for wid, w in sorted(self.writers.items()):
            if not w["closed"] and now - w["last"] >= BUCKET_TIMEOUT:
                self._gone(wid, w, "timeout")
        self.check_alloc_size()

    def op_read(self, si_i, shnum, off, ln):
        si = si_of(si_i)
        readers = self.fss.remote_get_buckets(si)
        finals = self.final_imm_of(si_i)
        if set(readers) != set(finals):
            vis = sorted(set(readers) - set(finals))
            if vis:
                self.bad("C22", "visible-before-close", "get_buckets(%d) shows %r, complete shares are %r" % (si_i, sorted(readers), sorted(finals)))
            else:
                self.bad("C22", "complete-share-missing", "get_buckets(%d) shows %r, complete shares are %r" % (si_i, sorted(readers), sorted(finals)))
        if shnum in readers and shnum in finals:
            sh = finals[shnum]
            got = readers[shnum].remote_read(off, ln)
            want = bytes(sh["data"][off:off + ln])
            self.probe("imm-read" + ("-clipped" if off + ln > sh["size"] else ""))
            if got != want:
                self.bad("C22", "read", "read(%d,%d) of share (%d,%d) size %d returned %d bytes differing from the written bytes (expected %d bytes)" % (
                    off, ln, si_i, shnum, sh["size"], len(got), len(want)))
            L = self.ss.get_immutable_share_length(si, shnum)
            if L != sh["size"]:
                self.bad("C22", "length", "share length %d != allocated size %d" % (L, sh["size"]))

    # leases on immutable and mutable shares
    def op_full_add_lease(self, si_i, sec_i):
        """add_lease while the disk is full (no room for anything new).  Renewing a lease that exists needs no room."""
        saved = self.disk.capacity
        self.disk.capacity = 0
        self.probe("add-lease-on-full-disk")
        try:
            self.op_add_lease(si_i, sec_i)
        finally:
            self.disk.capacity = saved

    def op_add_lease(self, si_i, sec_i):
        now = R.seconds()
        finals_ = [v for k, v in list(self.imm.items()) + list(self.mut.items()) if k[0] == si_i and v.get("state", "final") == "final"]
        pure_renewal = bool(finals_) and all(any(l and l["renew"] == sec_i for l in v["leases"]) for v in finals_) \
            and not any(v.get("leases_unsure") for v in finals_)
        try:
            self.fss.remote_add_lease(si_of(si_i), secret_of("renew", sec_i), secret_of("cancel", sec_i))
        except NoSpace:
            self.probe("add-lease-nospace")
            if pure_renewal:
                self.bad("C25", "renewal-refused-for-space", "add_lease with a renew secret that every share of the bucket already holds was refused "
                         "with NoSpace: renewing an existing lease adds no record")
            for k, v in list(self.imm.items()) + list(self.mut.items()):
                if k[0] == si_i:
                    v["leases_unsure"] = True
            return
        for k, v in list(self.imm.items()) + list(self.mut.items()):
            if k[0] == si_i and v.get("state", "final") == "final":
                r = self.m_leases_add_or_renew(v["leases"], sec_i, sec_i, now)
                self.probe("lease-" + r)

    def op_renew_lease(self, si_i, sec_i):
        now = R.seconds()
        shares = [(k, v) for k, v in sorted(list(self.imm.items()) + list(self.mut.items()))
                  if k[0] == si_i and v.get("state", "final") == "final"]
        known_everywhere = shares and all(any(l and l["renew"] == sec_i for l in v["leases"]) for k, v in shares)
        known_nowhere = not any(any(l and l["renew"] == sec_i for l in v["leases"]) for k, v in shares)
        if any(v.get("leases_unsure") for k, v in shares):
            # an add_lease that ran out of space part-way may have reached some shares of the bucket: the model does not know
            # which leases exist, so this renewal cannot be judged
            try:
                self.fss.remote_renew_lease(si_of(si_i), secret_of("renew", sec_i))
            except IndexError:
                pass
            self.probe("renew-after-unsure-leases")
            for k, v in shares:
                v["leases_unsure"] = True        # the whole bucket's leases are now beyond what the model tracks
            return
        before = self.snapshot_files() if known_nowhere else None
        try:
            self.fss.remote_renew_lease(si_of(si_i), secret_of("renew", sec_i))
            got = "ok"
        except IndexError:
            got = "indexerror"
        if known_nowhere:
            self.probe("renew-unknown")
            if got != "indexerror":
                self.bad("C25", "renew-unknown-no-error", "renew_lease with a secret no share knows did not report an error")
            after = self.snapshot_files()
            if after != before:
                self.bad("C25", "renew-unknown-changed", "renew_lease with an unknown secret changed share files: %r" % (
                    sorted(k for k in set(before) | set(after) if before.get(k) != after.get(k)),))
        elif known_everywhere:
            self.probe("renew-known")
            if got != "ok":
                self.bad("C25", "renew-known-error", "renew_lease with a secret every share holds raised IndexError")
            for k, v in shares:
                for l in v["leases"]:
                    if l and l["renew"] == sec_i:
                        l["expiry"] = max(l["expiry"], int(now + LEASE_TIME))
        else:
            # mixed: the server renews shares in directory order until the first share lacking
            # the lease; which ones were renewed is unspecified -> resync expiry from disk
            self.probe("renew-mixed")
            for k, v in shares:
                v["lease_expiry_unsure"] = sec_i

    def op_cancel_lease(self, kind, si_i, shnum, sec_i):
        """LeaseCheckingCrawler's internal API, on one share file."""
        key = (si_i, shnum)
        tbl = self.imm if kind == "imm" else self.mut
        sh = tbl.get(key)
        if sh is None or sh.get("state", "final") != "final":
            return
        path = self.final_path(key)
        sf = ShareFile(path) if kind == "imm" else MutableShareFile(path, self.ss)
        has = any(l and l["cancel"] == sec_i for l in sh["leases"])
        if sh.get("leases_unsure"):
            return
        try:
            sf.cancel_lease(secret_of("cancel", sec_i))
            got = "ok"
        except IndexError:
            got = "indexerror"
        if has != (got == "ok"):
            self.bad("C25", "cancel-outcome", "cancel_lease outcome %s but model has lease: %s" % (got, has))
        if got == "ok":
            if kind == "imm":
                sh["leases"] = [l for l in sh["leases"] if l["cancel"] != sec_i]
            else:
                sh["leases"] = [None if (l and l["cancel"] == sec_i) else l for l in sh["leases"]]
            self.probe("lease-cancel")
            if not [l for l in sh["leases"] if l]:
                del tbl[key]
                self.share_schema.pop(key, None)
                self.probe("lease-cancel-last-removes-share")
                # the (empty) bucket directory is left behind by cancel_lease; nothing to model

    # -- mutable -----------------------------------------------------------------
    def m_read(self, sh, off, ln):
        if sh is None:
            return b""
        return bytes(sh["data"][off:off + ln])

    def op_writev(self, si_i, we_i, sec_i, tw, readv):
        """tw: [[shnum, testv, datav, new_length]], testv: [[off, len, mode]] with mode 0=match, 1=mismatch,
        datav: [[off, len, pat]], readv: [[off, len]]"""
        si = si_of(si_i)
        now = R.seconds()
        existing = {k[1]: v for k, v in self.mut.items() if k[0] == si_i}
        we = secret_of("we", we_i)
        tw_real = {}
        tests_ok = True
        for (shnum, testv, datav, new_length) in tw:
            sh = existing.get(shnum)
            tv = []
            for (off, ln, mode) in testv:
                cur = self.m_read(sh, off, ln)
                if mode == 0:
                    spec = cur
                elif mode == 1:
                    spec = cur + b"x" if len(cur) < ln or not cur else bytes([cur[0] ^ 1]) + cur[1:]
                    tests_ok = False
                elif mode == 3:
                    # specimen shorter than the tested range (publishers use (0, 1, "eq", b"") for "share must not exist yet"):
                    # equal only if the range itself reads that short
                    spec = cur[:len(cur) // 2]
                    if spec != cur:
                        tests_ok = False
                else:   # claims data exists beyond the current end
                    spec = cur + b"\x00"
                    tests_ok = False
                tv.append((off, ln, b"eq", spec))
            dv = [(off, pat_bytes(pat, ln)) for (off, ln, pat) in datav]
            tw_real[shnum] = (tv, dv, new_length)
        enabler_ok = all(v["we"] == we_i for v in existing.values())
        before = self.snapshot_files()
        expect_reads = {n: [self.m_read(v, o, l) for (o, l) in readv] for n, v in existing.items()}
        try:
            ok, reads = self.fss.remote_slot_testv_and_readv_and_writev(
                si, (we, secret_of("renew", sec_i), secret_of("cancel", sec_i)), tw_real, [tuple(x) for x in readv])
            got = "applied" if ok else "refused"
        except BadWriteEnablerError:
            got = "badenabler"
            reads = None
        if not enabler_ok:
            self.probe("writev-bad-enabler")
            if got != "badenabler":
                self.bad("C24", "enabler", "writev with a write enabler that does not match every existing share was %s" % got)
        elif not tests_ok:
            self.probe("writev-test-fails")
            if got != "refused":
                self.bad("C24", "testv", "writev whose test vector does not match current data was %s" % got)
                # C23: "test vectors compare against the current data (a missing share reads as empty)"
                self.bad("C23", "testv-vs-current-data", "a test-and-write whose test vector does not equal the share's current "
                         "data (missing shares read as empty) was %s: %r" % (got, _short(tw_real)))
        else:
            self.probe("writev-applied")
            if got != "applied":
                self.bad("C24", "testv-spurious", "writev whose test vectors match the current data was %s" % got)
                self.bad("C23", "testv-vs-current-data", "a test-and-write whose test vectors equal the current data was %s" % got)
        if got != "applied":
            after = self.snapshot_files()
            if after != before:
                self.bad("C24", "refused-changed-state", "a %s writev changed share files %r" % (
                    got, sorted(k for k in set(before) | set(after) if before.get(k) != after.get(k))))
        if reads is not None:
            if {n: list(v) for n, v in reads.items()} != expect_reads:
                self.bad("C24", "read-results", "writev read vector returned %r, pre-request data is %r" % (
                    _short(reads), _short(expect_reads)))
        if got == "applied" and enabler_ok and tests_ok:
            for (shnum, testv, datav, new_length) in tw:
                key = (si_i, shnum)
                if new_length == 0:
                    if key in self.mut:
                        del self.mut[key]
                        self.share_schema.pop(key, None)
                        self.probe("mut-delete")
                    continue
                sh = self.mut.get(key)
                if sh is None:
                    sh = self.mut[key] = {"data": bytearray(), "we": we_i, "leases": []}
                    self.share_schema[key] = self.schema[1]
                    self.probe("mut-create")
                nleases_before = len(sh["leases"])
                for (off, ln, pat) in datav:
                    data = pat_bytes(pat, ln)
                    cur = len(sh["data"])
                    if off + ln >= cur:
                        if off > cur:
                            sh["data"] += b"\x00" * (off - cur)
                            self.probe("mut-gap-fill")
                        sh["data"][off:] = data
                        if nleases_before > 4 and off + ln > cur:
                            self.probe("mut-grow-with-extra-leases")
                    else:
                        sh["data"][off:off + ln] = data
                if new_length is not None and new_length < len(sh["data"]):
                    del sh["data"][new_length:]
                    self.probe("mut-truncate")
                self.m_leases_add_or_renew(sh["leases"], sec_i, sec_i, now)
        elif got == "applied":
            # server applied something the model says it must not; resync impossible -> stop comparing
            self.desync = True

    def op_readv(self, si_i, shnums, readv):
        existing = {k[1]: v for k, v in self.mut.items() if k[0] == si_i}
        got = self.fss.remote_slot_readv(si_of(si_i), list(shnums), [tuple(x) for x in readv])
        want = {n: [self.m_read(v, o, l) for (o, l) in readv] for n, v in existing.items()
                if (not shnums or n in shnums)}
        self.probe("mut-readv")
        if {n: list(v) for n, v in got.items()} != want:
            self.bad("C23", "readv", "slot_readv(%d,%r,%r) returned %r, model %r" % (si_i, shnums, readv, _short(got), _short(want)))

    # -- whole-state comparison ----------------------------------------------------
    def snapshot_files(self):
        out = {}
        for root, dirs, files in os.walk(self.ss.sharedir):
            for f in files:
                p = os.path.join(root, f)
                with open(p, "rb") as fh:
                    out[os.path.relpath(p, self.ss.sharedir)] = fh.read()
        return out

    def check_all(self, final=False):
        """Cross-invariants after each step: model == server through the server's own API + files."""
        if getattr(self, "desync", False):
            return
        sis = sorted(set(k[0] for k in list(self.imm) + list(self.mut)))
        for si_i in sis:
            si = si_of(si_i)
            finals = self.final_imm_of(si_i)
            muts = {k[1]: v for k, v in self.mut.items() if k[0] == si_i}
            listed = dict(self.ss.get_shares(si))
            if set(listed) != set(finals) | set(muts):
                vis = set(listed) - (set(finals) | set(muts))
                prop = "C22" if not muts else "C23"
                self.bad(prop, "visible-before-close" if vis else "share-missing",
                         "server lists shares %r of si %d; model has %r" % (sorted(listed), si_i, sorted(set(finals) | set(muts))))
                continue
            for n, sh in sorted(finals.items()):
                sf = ShareFile(listed[n])
                data = sf.read_share_data(0, sh["size"] + 10)
                if data != bytes(sh["data"]):
                    self.bad("C22", "read", "complete share (%d,%d) reads back %d bytes that differ from the written bytes" % (si_i, n, len(data)))
                self.check_leases("imm", (si_i, n), sh, list(sf.get_leases()), listed[n])
            for n, sh in sorted(muts.items()):
                msf = MutableShareFile(listed[n], self.ss)
                L = msf.get_length()
                data = msf.readv([(0, L + 10)])[0]
                if L != len(sh["data"]) or data != bytes(sh["data"]):
                    self.bad("C23", "contents", "mutable share (%d,%d): length %d / model %d, contents %s" % (
                        si_i, n, L, len(sh["data"]), "equal" if data == bytes(sh["data"]) else "differ"))
                self.check_leases("mut", (si_i, n), sh, list(msf.get_leases()), listed[n])
        # in-progress and vanished shares
        for wid, w in sorted(self.writers.items()):
            key = w["key"]
            inc = self.incoming_path(key)
            if not w["closed"]:
                if not os.path.exists(inc):
                    self.bad("C22", "incoming-missing", "in-progress share %r has no incoming file" % (key,))
            else:
                cur = self.imm.get(key)
                if cur is None or cur.get("wid") != wid:
                    # aborted / timed out / disconnected, and not re-allocated since
                    if os.path.exists(inc) and not any((not w2["closed"]) and w2["key"] == key for w2 in self.writers.values()):
                        self.bad("C22", "aborted-left-incoming", "aborted/timed-out/disconnected upload of %r left %s" % (key, inc))
                    if cur is None and os.path.exists(self.final_path(key)):
                        self.bad("C22", "aborted-left-share", "aborted/timed-out/disconnected upload of %r left a share behind" % (key,))

    def check_leases(self, kind, key, sh, real, path):
        prop = "C25"
        if sh.get("leases_unsure"):
            return
        if kind == "mut" and getattr(self, "last_op", None) == "writev":
            # C23's last sentence: the model already holds the writer's own added/renewed lease, so any
            # other difference right after a test-and-write was made by the data write
            mleases = [l for l in sh["leases"] if l]
            if len(real) != len(mleases) or any(not l.is_renew_secret(secret_of("renew", m["renew"])) for l, m in zip(real, mleases)):
                self.bad("C23", "leases-altered-by-write", "mutable share %r: after a test-and-write the share lists %d leases, "
                         "the model (previous leases + the writer's own) %d, or their secrets/order differ" % (key, len(real), len(mleases)))
            else:
                self.probe("leases-unchanged-by-write-%s" % ("extra-area" if len(real) > 4 else "header-only"))
        mleases = [l for l in sh["leases"] if l]
        if len(real) != len(mleases):
            self.bad(prop, "lease-count", "%s share %r has %d leases, model %d" % (kind, key, len(real), len(mleases)),
                     sig="C25.lease-count.%s" % kind)
            return
        for l, m in zip(real, mleases):
            if not l.is_renew_secret(secret_of("renew", m["renew"])):
                self.bad(prop, "lease-secret", "%s share %r lease order/secret differs from model" % (kind, key))
                return
            exp = l.get_expiration_time()
            if sh.get("lease_expiry_unsure") == m["renew"]:
                if exp < m["expiry"]:
                    self.bad(prop, "lease-shortened", "%s share %r lease expiry %d < previous %d" % (kind, key, exp, m["expiry"]))
                m["expiry"] = exp
                continue
            if exp != m["expiry"]:
                self.bad(prop, "lease-expiry", "%s share %r lease expiry %d, model %d (max of old and new)" % (kind, key, exp, m["expiry"]),
                         sig="C25.lease-expiry.%s" % ("shortened" if exp < m["expiry"] else "other"))
        sh.pop("lease_expiry_unsure", None)
        ver = self.share_schema.get(key)
        if ver == 2:
            with open(path, "rb") as f:
                raw = f.read()
            for m in mleases:
                for nm in ("renew", "cancel"):
                    if secret_of(nm, m[nm]) in raw:
                        self.bad(prop, "cleartext-secret", "v2 %s container %r stores the %s secret in cleartext" % (kind, key, nm))
            self.probe("v2-container-scanned")
        elif ver == 1:
            self.probe("v1-container-checked")


def _short(d):
    try:
        return {k: [x if len(x) <= 12 else x[:12] + b"..(%d)" % len(x) for x in v] for k, v in d.items()}
    except Exception:
        return d


# ---------------------------------------------------------------------------------------
# generation
# ---------------------------------------------------------------------------------------
def gen_case(seed, tier, profile):
    """profile: 'imm' (C22), 'mut' (C23), 'rtw' (C24), 'lease' (C25), 'space' (C28)"""
    ch = Chooser(seed)
    W = "workload"
    cfg = {"profile": profile}
    nops = ch.randint("config", "nops", 5, 40 if tier == "quick" else 60)
    n_si = ch.randint("config", "nsi", 1, 3)
    n_sh = ch.randint("config", "nsh", 1, 4)
    if profile == "space":
        cfg["capacity"] = ch.pick("config", "cap", [0, 200, 1000, 1500, 3000, 10000])
        cfg["reserved"] = ch.pick("config", "res", [0, 0, 100, 500, 5000])
        cfg["readonly"] = ch.chance("config", "ro", 0.15)
        cfg["statvfs"] = ch.chance("config", "statvfs", 0.4)
        cfg["root_reserve"] = ch.pick("config", "rootres", [0, 500, 5000])
    sizes = [0, 1, 7, 64, 100, 300, 1000]
    ops = []
    nsec = 3
    state = {"writers": 0}

    def rnd_size():
        return ch.pick(W, "size", sizes)

    def imm_op(i):
        k = ch.weighted(W, ("immop", i), [("alloc", 5), ("write", 12), ("close", 4), ("abort", 1.2), ("disconnect", 0.8),
                                           ("advance", 1.5), ("read", 6), ("add_lease", 1.5 if profile in ("imm", "lease") else 0.2),
                                           ("renew_lease", 1.0 if profile in ("imm", "lease") else 0.1)])
        if k == "alloc":
            shn = ch.sample(W, ("shn", i), range(n_sh), ch.randint(W, ("nshn", i), 1, n_sh))
            state["writers"] += len(shn)
            return ["alloc", ch.randrange(W, ("si", i), n_si), sorted(shn), rnd_size(), ch.randrange(W, ("sec", i), nsec),
                    ch.randrange(W, ("conn", i), 2)]
        if k == "write":
            # mostly honest sequential-ish writes from the upload's content, sometimes conflicting
            pat = 0 if ch.chance(W, ("honest", i), 0.8) else ch.randint(W, ("pat", i), 1, 5)
            return ["write", ch.randrange(W, ("w", i), 64), ch.randrange(W, ("off", i), 1200),
                    ch.pick(W, ("len", i), [0, 1, 3, 10, 50, 64, 100, 300, 1000]), pat]
        if k in ("close", "abort"):
            if k == "close" and ch.chance(W, ("ioerr", i), 0.12):
                return ["failclose", ch.randrange(W, ("w", i), 64), ch.pick(W, ("iowhat", i), ["rename", "rename", "make_dirs"]),
                        ch.pick(W, ("iothen", i), ["abort", "disconnect"])]
            return [k, ch.randrange(W, ("w", i), 64)]
        if k == "disconnect":
            return ["disconnect", ch.randrange(W, ("conn", i), 2)]
        if k == "advance":
            return ["advance", ch.pick(W, ("dt", i), [1, 60, 600, 1799, 1800, 1801, 3600, 86400 * 3])]
        if k == "read":
            return ["read", ch.randrange(W, ("si", i), n_si), ch.randrange(W, ("shn", i), n_sh),
                    ch.pick(W, ("off", i), [0, 0, 1, 5, 63, 64, 99, 100, 101, 500, 1000, 2000]),
                    ch.pick(W, ("len", i), [0, 1, 10, 64, 100, 101, 1000, 5000])]
        if k == "add_lease":
            return ["add_lease", ch.randrange(W, ("si", i), n_si), ch.randrange(W, ("sec", i), nsec + 2)]
        return ["renew_lease", ch.randrange(W, ("si", i), n_si), ch.randrange(W, ("sec", i), nsec + 2)]

    def mut_op(i):
        k = ch.weighted(W, ("mutop", i), [("writev", 10), ("readv", 5), ("advance", 1),
                                           ("add_lease", 2 if profile == "lease" else 0.5),
                                           ("renew_lease", 1.5 if profile == "lease" else 0.3)])
        if k == "writev":
            si_i = ch.randrange(W, ("si", i), n_si)
            nsh = ch.randint(W, ("ntw", i), 1, 1 if profile == "mut" and ch.chance(W, ("single", i), 0.5) else n_sh)
            shn = sorted(ch.sample(W, ("shn", i), range(n_sh), nsh))
            tw = []
            for n in shn:
                testv = []
                for t in range(ch.pick(W, ("ntest", i, n), [0, 0, 1, 2])):
                    mode = ch.weighted(W, ("tmode", i, n, t), [(0, 8), (1, 1.2 if profile in ("rtw", "mut") else 0.3), (2, 0.5 if profile == "rtw" else 0.1),
                                                               (3, 1.0 if profile in ("rtw", "mut") else 0.2)])
                    testv.append([ch.pick(W, ("toff", i, n, t), [0, 0, 1, 10, 100, 5000]),
                                  ch.pick(W, ("tlen", i, n, t), [0, 1, 8, 100, 5000]), mode])
                datav = []
                for dnum in range(ch.pick(W, ("nw", i, n), [0, 1, 1, 1, 2, 3])):
                    datav.append([ch.pick(W, ("woff", i, n, dnum), [0, 0, 1, 10, 50, 100, 101, 500, 1000, 4000, 70000]),
                                  ch.pick(W, ("wlen", i, n, dnum), [0, 1, 5, 50, 100, 400, 1500]),
                                  ch.randint(W, ("wpat", i, n, dnum), 1, 1 << 30)])
                nl = ch.weighted(W, ("nl", i, n), [(None, 10), (0, 1.0), (1, 0.5), (50, 1), (100, 1), (3000, 0.7), (100000, 0.5)])
                tw.append([n, testv, datav, nl])
            we = 0 if ch.chance(W, ("we", i), 0.85 if profile != "rtw" else 0.7) else ch.randint(W, ("we2", i), 1, 2)
            readv = [[ch.pick(W, ("roff", i, r), [0, 0, 10, 100, 5000]), ch.pick(W, ("rlen", i, r), [0, 1, 20, 200, 100000])]
                     for r in range(ch.pick(W, ("nr", i), [0, 1, 2]))]
            return ["writev", si_i, we, ch.randrange(W, ("sec", i), 7 if profile == "lease" or ch.chance(W, ("manysec", i), 0.5) else nsec), tw, readv]
        if k == "readv":
            shn = sorted(ch.sample(W, ("shn", i), range(n_sh), ch.randint(W, ("nshn", i), 0, n_sh)))
            readv = [[ch.pick(W, ("roff", i, r), [0, 0, 1, 10, 99, 100, 101, 5000, 1 << 20]),
                      ch.pick(W, ("rlen", i, r), [0, 1, 20, 100, 200, 100000])]
                     for r in range(ch.pick(W, ("nr", i), [1, 1, 2, 3]))]
            return ["readv", ch.randrange(W, ("si", i), n_si), shn, readv]
        if k == "advance":
            return ["advance", ch.pick(W, ("dt", i), [1, 3600, 86400, 86400 * 20, 86400 * 40])]
        if k == "add_lease":
            return ["add_lease", ch.randrange(W, ("si", i), n_si), ch.randrange(W, ("sec", i), 12)]
        return ["renew_lease", ch.randrange(W, ("si", i), n_si), ch.randrange(W, ("sec", i), 12)]

    if profile in ("imm", "space"):
        kinds = ["imm"] * nops
    elif profile in ("mut", "rtw"):
        kinds = ["mut"] * nops
    else:  # lease: either family, in separate SIs (si index parity decides family)
        fam = ch.pick("config", "fam", ["imm", "mut"])
        kinds = [fam] * nops
    for i, fam in enumerate(kinds):
        if profile == "lease" and ch.chance(W, ("schema", i), 0.08):
            ops.append(["schema", ch.pick(W, ("iv", i), [1, 2]), ch.pick(W, ("mv", i), [1, 2])])
        if profile == "lease" and ch.chance(W, ("full", i), 0.1):
            ops.append(["full_add_lease", ch.randrange(W, ("fsi", i), n_si), ch.randrange(W, ("fsec", i), 5)])
        if profile == "lease" and ch.chance(W, ("cancel", i), 0.06):
            ops.append(["cancel_lease", fam, ch.randrange(W, ("csi", i), n_si), ch.randrange(W, ("csh", i), n_sh),
                        ch.randrange(W, ("csec", i), 7)])
        ops.append(imm_op(i) if fam == "imm" else mut_op(i))
    if profile == "mut" and ch.chance("config", "lease-burst", 0.6):
        # containers holding more than four leases keep the rest in the extra-lease area behind the data,
        # which every container growth has to move (DESIGN C23): make such containers common
        at = ch.randint("config", "lease-burst-at", 1, min(6, len(ops)))
        burst = [["add_lease", ch.randrange("config", "lease-burst-si", n_si), sec]
                 for sec in ch.sample("config", "lease-burst-secs", range(12), ch.randint("config", "lease-burst-n", 3, 9))]
        ops[at:at] = burst
    if profile == "lease" or ch.chance("config", "v1", 0.2):
        ops.insert(0, ["schema", ch.pick("config", "iv0", [1, 2, 2]), ch.pick("config", "mv0", [1, 2, 2])])
    return {"engine": "storesim", "seed": seed, "cfg": cfg, "ops": ops}


def execute(case, props):
    """Run a case; report only violations whose clause belongs to `props`."""
    from sim.runner import child_tmp
    import tempfile
    R.reset_sim()
    set_container_schema(2, 2)
    base = tempfile.mkdtemp(dir=child_tmp())
    st = Store(base, case["cfg"])
    fp = hashlib.sha256()
    for op in case["ops"]:
        try:
            st.run_op(op)
            st.check_all()
        except Exception as e:
            import traceback
            tb = traceback.format_exc()
            st.bad(props[0], "unexpected-exception", "op %r raised %r\n%s" % (op[:2], e, tb[-1200:]),
                   sig="%s.unexpected-exception.%s" % (props[0], type(e).__name__))
        R.note(repr(op[0]) + str(len(st.viol)))
        fp.update(op[0].encode())
        if st.viol:
            break
    viol = [v for v in st.viol if v["clause"].split(".")[0] in props]
    probes = st.stats["probes"]
    fp.update(repr(sorted(probes.items())).encode())
    return {
        "violations": viol[:3],
        "digest": R.digest(),
        "fingerprint": fp.hexdigest()[:16],
        "nontrivial": len(probes) >= 3,
        "events": R.events,
        "sim_s": R.true_seconds() - EPOCH,
        "faults": {k: v for k, v in probes.items() if k in ("imm-abort", "imm-disconnect", "imm-timeout", "writev-bad-enabler", "writev-test-fails", "alloc-refused-for-space", "renew-unknown")},
        "probes": probes,
        "errors": R.errors[:2],
    }


# ------------------------------------------------------------------------------------------
# profile: huge (immutable shares around the 4 GiB mark, where the 32-bit "share data length" field of the container header
# saturates).  Sparse files: only a few windows are ever written or read, so a 4 GiB share costs a few KiB of disk and memory.
# Used by C22 (reads), C25 (leases) and C29 (re-open after restart; lease-only operations leave the data alone).
# ------------------------------------------------------------------------------------------
def gen_huge(seed, tier, focus):
    ch = Chooser(seed)
    W = "workload"
    size = (1 << 32) + ch.pick("config", "huge-delta", [-2, -1, 0, 1, 71, -1 + 72, -1 + 72 * 2, -1 + 72 * 5, 4096, 100000, -1 + 72 * 1000])
    ops = []
    for i in range(ch.randint(W, "nops", 2, 7)):
        k = ch.weighted(W, ("k", i), [("add_lease", 4), ("renew", 2), ("realloc", 2), ("restart", 3), ("advance", 1.5), ("read", 1)])
        ops.append([k, ch.randrange(W, ("sec", i), 4), ch.pick(W, ("dt", i), [1, 3600, 86400 * 5])])
    return {"engine": "storesim", "profile": "huge", "focus": focus, "seed": seed,
            "cfg": {"size": size, "imm_schema": ch.pick("config", "iv", [1, 2, 2]), "pat": ch.randint("config", "pat", 1, 1 << 30),
                    "write_tail": ch.chance("config", "write-tail", 0.8), "chunk": ch.pick("config", "chunk", [300, 1000, 5000])},
            "ops": ops}


def exec_huge(case):
    import tempfile
    from sim.runner import child_tmp
    cfg = case["cfg"]
    focus = case["focus"]
    base = tempfile.mkdtemp(dir=child_tmp())
    R.reset_sim()
    set_container_schema(cfg["imm_schema"], 2)
    viol, probes = [], {}

    def probe(nm, c=1):
        probes[nm] = probes.get(nm, 0) + c

    def bad(props, clause, detail):
        for p_ in props:
            viol.append({"clause": "%s.%s" % (p_, clause), "sig": "%s.%s.huge-share" % (p_, clause), "detail": detail})

    size, chunk = cfg["size"], cfg["chunk"]
    LEASE_S = 31 * 24 * 3600
    si = si_of(0)

    def new_server():
        ss_ = StorageServer(base, b"\x33" * 20, clock=R)
        ss_.bucket_counter.disownServiceParent()
        ss_.lease_checker.disownServiceParent()
        ss_.get_available_space = lambda: 1 << 50        # (the real disk is smaller than the sparse share's nominal size)
        return ss_
    try:
        ss = new_server()
        already, writers = ss.allocate_buckets(si, secret_of("renew", 0), secret_of("cancel", 0), {0}, size)
        if 0 not in writers:
            return {"violations": [], "digest": R.digest(), "fingerprint": "huge-setup", "nontrivial": False, "events": R.events,
                    "sim_s": R.true_seconds() - EPOCH, "faults": {}, "probes": {"huge-setup-failed": 1}}
        written = []
        spots = [0, (1 << 32) - 1 - chunk // 2, (1 << 32) - 1 + 72 - chunk // 3]
        if cfg["write_tail"]:
            spots.append(size - chunk)
        for off in spots:
            off = max(0, min(off, size - 1))
            ln = min(chunk, size - off)
            data = pat_bytes(cfg["pat"], ln, off % 1000003)
            writers[0].write(off, data)
            written.append((off, data))
        writers[0].close()
        leases = {secret_of("renew", 0): R.seconds() + LEASE_S}
        share_path = os.path.join(ss.sharedir, storage_index_to_dir(si), "0")
        probe("huge-share-stored")

        def expect(off, ln):
            ln = max(0, min(ln, size - off))
            buf = bytearray(ln)
            for (o_, d_) in written:
                a, b = max(off, o_), min(off + ln, o_ + len(d_))
                if a < b:
                    buf[a - off:b - off] = d_[a - o_:b - o_]
            return bytes(buf)
        windows = [(0, 64), (chunk - 10, 40), ((1 << 32) - 1 - 130, 300), ((1 << 32) - 1 + 72 - 40, 200), (size - 200, 200), (size - 50, 100), (size, 10), (size + 1000, 10)]
        windows = [(max(0, o_), l_) for (o_, l_) in windows]

        def raw_windows():
            out = []
            with open(share_path, "rb") as f:
                for (o_, l_) in windows:
                    l2 = max(0, min(l_, size - o_))
                    f.seek(0xc + o_)
                    out.append(f.read(l2))
            return out

        def check_all(after, props_data, props_lease):
            try:
                rd = ss.get_buckets(si)[0]
            except Exception as e:
                bad(props_data, "share-unreadable", "%s: get_buckets failed: %r" % (after, e))
                return
            for (o_, l_) in windows:
                try:
                    got = rd.read(o_, l_)
                except Exception as e:
                    bad(props_data, "read", "%s: read(%d, %d) of a %d-byte share raised %r" % (after, o_, l_, size, e))
                    break
                if got != expect(o_, l_):
                    bad(props_data, "read", "%s: read(%d, %d) of a %d-byte share returned %d bytes, expected %d%s" % (
                        after, o_, l_, size, len(got), len(expect(o_, l_)), "" if len(got) != len(expect(o_, l_)) else " (contents differ)"))
                    break
            probe("huge-windows-read")
            try:
                got_l = sorted((l.renew_secret if cfg["imm_schema"] == 1 else None, int(l.get_expiration_time())) for l in ss.get_leases(si))
            except Exception as e:
                bad(props_lease, "leases-unreadable", "%s: get_leases raised %r" % (after, e))
                return
            want_l = sorted((s_ if cfg["imm_schema"] == 1 else None, int(e_)) for s_, e_ in leases.items())
            if got_l != want_l:
                bad(props_lease, "lease-set", "%s: a %d-byte share has %d leases with expirations %r, the operations so far leave %d with %r" % (
                    after, size, len(got_l), [e_ for _s, e_ in got_l][:6], len(want_l), [e_ for _s, e_ in want_l][:6]))
            probe("huge-leases-compared")
        check_all("after the upload", ("C22",), ("C25",))
        for (k, sec, dt) in case["ops"]:
            rs, cs = secret_of("renew", sec), secret_of("cancel", sec)
            before_raw = raw_windows()
            lease_only = k in ("add_lease", "renew", "realloc")
            try:
                if k == "add_lease":
                    ss.add_lease(si, rs, cs)
                    leases[rs] = max(leases.get(rs, 0), R.seconds() + LEASE_S)
                elif k == "renew":
                    if rs in leases:
                        ss.renew_lease(si, rs)
                        leases[rs] = max(leases[rs], R.seconds() + LEASE_S)
                    else:
                        try:
                            ss.renew_lease(si, rs)
                            bad(("C25",), "renew-unknown-accepted", "renew_lease with a secret no lease was granted under did not fail")
                        except IndexError:
                            pass
                elif k == "realloc":
                    already2, writers2 = ss.allocate_buckets(si, rs, cs, {0}, size)
                    if 0 not in already2 or writers2:
                        bad(("C22",), "complete-share-reallocated", "allocate_buckets for the stored %d-byte share: already=%r, new writers for %r" % (size, sorted(already2), sorted(writers2)))
                        for w_ in writers2.values():
                            w_.abort()
                    leases[rs] = max(leases.get(rs, 0), R.seconds() + LEASE_S)
                elif k == "restart":
                    ss = new_server()
                elif k == "advance":
                    R.advance(dt)
            except Exception as e:
                if k == "renew" and rs in leases:
                    bad(("C25", "C29"), "renew-failed", "renew_lease with a secret a lease was granted under raised %r (share of %d bytes)" % (e, size))
                else:
                    bad(("C25",) if lease_only else ("C22",), "unexpected-exception", "%s on a %d-byte share raised %r" % (k, size, e))
            probe("huge-op-" + k)
            if lease_only and raw_windows() != before_raw:
                bad(("C22", "C29", "C25"), "lease-op-changed-data", "%s changed bytes inside the data region of a stored %d-byte share" % (k, size))
            check_all("after %s" % k, ("C22", "C29") if k == "restart" or lease_only else ("C22",), ("C25", "C29") if k == "restart" else ("C25",))
            if viol:
                break
    finally:
        set_container_schema(2, 2)
    fp = hashlib.sha256(repr((sorted(probes.items()), size)).encode()).hexdigest()[:16]
    return {"violations": [v for v in viol if v["clause"].split(".")[0] == focus][:4], "digest": R.digest(), "fingerprint": fp, "nontrivial": True,
            "events": R.events, "sim_s": R.true_seconds() - EPOCH, "faults": {}, "probes": probes}
