"""introsim — real IntroducerClient subscribers and publishers, real IntroducerService, SimNet in
between, plus an adversary that forges, replays, reorders and duplicates announcement batches
(DESIGN §4 C34)."""
import hashlib
import json
import os
import tempfile

from sim import boot
from sim.choice import Chooser
from sim.net import SimNet
from sim.reactor import EPOCH

R = boot.install()

from twisted.python.filepath import FilePath                                   # noqa: E402
from allmydata.introducer.client import IntroducerClient                        # noqa: E402
from allmydata.introducer.server import IntroducerService                       # noqa: E402
from allmydata.introducer.common import sign_to_foolscap, unsign_from_foolscap  # noqa: E402
from allmydata.crypto import ed25519                                            # noqa: E402
from allmydata.util import base32                                               # noqa: E402


def keypair(i):
    # deterministic ed25519 keys: private key from 32 seeded bytes
    from cryptography.hazmat.primitives.asymmetric.ed25519 import Ed25519PrivateKey
    seed = hashlib.sha256(b"intro-key-%d" % i).digest()
    priv = Ed25519PrivateKey.from_private_bytes(seed)
    return priv, priv.public_key()


def gen_intro(seed, tier):
    ch = Chooser(seed)
    W = "workload"
    npub = ch.randint("config", "npub", 1, 4)
    nsub = ch.randint("config", "nsub", 1, 3)
    ops = []
    for i in range(ch.randint(W, "nops", 3, 30)):
        k = ch.weighted(W, ("k", i), [("publish", 5), ("batch", 8), ("service-relay", 3), ("reconnect", 1.2), ("cache-fault", 1.0)])
        if k == "cache-fault":
            # the subscriber's announcement cache file cannot be written for the next n attempts (disk full, permissions)
            ops.append(["cache-fault", ch.randrange(W, ("s", i), nsub), ch.randint(W, ("ncf", i), 1, 3)])
        elif k == "publish":
            ops.append(["publish", ch.randrange(W, ("p", i), npub), ch.randint(W, ("v", i), 1, 1 << 20)])
        elif k == "batch":
            els = []
            for j in range(ch.randint(W, ("n", i), 1, 5)):
                els.append([ch.pick(W, ("el", i, j), ["latest", "latest", "old", "dup", "wrong-key", "flip-msg", "flip-sig", "no-v0-sig", "empty-sig", "bad-key-b32",
                                                      "not-json", "no-service-name", "no-seqnum", "str-seqnum", "other-service", "short-tuple", "none-sig", "own-key"]),
                            ch.randrange(W, ("p", i, j), npub), ch.randrange(W, ("x", i, j), 1 << 30)])
            ops.append(["batch", ch.randrange(W, ("s", i), nsub), els, ch.pick(W, ("order", i), ["asis", "reversed", "rotated"])])
        elif k == "service-relay":
            ops.append(["service-relay", ch.randrange(W, ("p", i), npub)])
        else:
            ops.append(["reconnect", ch.randrange(W, ("s", i), nsub)])
    return {"engine": "introsim", "seed": seed, "cfg": {"npub": npub, "nsub": nsub,
                                                          "net": {"lat_profile": ch.pick("config", "lat", ["uniform", "heavy", "fifo"]), "jitter": 0.3}},
            "ops": ops, "faults": []}


def exec_intro(case):
    from sim.runner import child_tmp
    cfg = case["cfg"]
    base = tempfile.mkdtemp(dir=child_tmp())
    R.reset_sim()
    ch = Chooser(case["seed"])
    net = SimNet(R, ch, cfg["net"])
    viol, probes = [], {}

    def probe(nm, c=1):
        probes[nm] = probes.get(nm, 0) + c

    def bad(clause, detail, sig=None):
        viol.append({"clause": "C34." + clause, "sig": sig or "C34." + clause, "detail": detail})

    service = IntroducerService()
    genuine = {}         # key_s -> list of announcement dicts really signed by that key (in signing order)
    signed_t = {}        # key_s -> list of ann_t
    pubs = []
    for i in range(cfg["npub"]):
        priv, pubk = keypair(i)
        seq = [0]

        def sequencer(seq=seq):
            seq[0] += 1
            return seq[0], "nonce%d" % seq[0]
        c = IntroducerClient(None, "pb://fake@intro/xyz", "pub%d" % i, "1.0", "1.0", sequencer, FilePath(os.path.join(base, "pubcache%d.yaml" % i)))
        key_s = ed25519.string_from_verifying_key(pubk)[len(b"pub-"):]
        pubs.append({"client": c, "priv": priv, "key_s": key_s, "name": "p%d" % i})
        genuine[key_s] = []
        signed_t[key_s] = []
    # the adversary owns a key too (announcements signed with it are genuine *for that key*)
    apriv, apub = keypair(99)
    akey_s = ed25519.string_from_verifying_key(apub)[len(b"pub-"):]
    genuine[akey_s] = []
    subs = []
    for i in range(cfg["nsub"]):
        c = IntroducerClient(None, "pb://fake@intro/xyz", "sub%d" % i, "1.0", "1.0", lambda: (1, "n"), FilePath(os.path.join(base, "subcache%d.yaml" % i)))
        delivered = []
        c.subscribe_to("storage", lambda key_s, ann, delivered=delivered: delivered.append((key_s, json.loads(json.dumps(ann)))))
        sub_ = {"client": c, "delivered": delivered, "name": "s%d" % i, "connected": False, "cache_faults": 0}
        subs.append(sub_)

        def failing_set_content(content, *a, sub_=sub_, fp_=c._cache_filepath, **kw):
            if sub_["cache_faults"] > 0:
                sub_["cache_faults"] -= 1
                probe("cache-write-failed")
                raise OSError(28, "No space left on device (injected)")
            return type(fp_).setContent(fp_, content, *a, **kw)
        c._cache_filepath.setContent = failing_set_content

    def connect(node):
        ref = net.ref(node["name"], "intro", service)
        node["client"]._got_introducer(ref)
        node["connected"] = True

    def do_publish(p, value):
        pub = pubs[p]
        pub["client"].publish("storage", {"anonymous-storage-FURL": "pb://%s@nowhere/%d" % ("a" * 32, value), "value": value}, pub["priv"])
        ann_t = pub["client"]._published_announcements["storage"]
        ann = json.loads(ann_t[0].decode("utf-8"))
        genuine[pub["key_s"]].append(ann)
        signed_t[pub["key_s"]].append(ann_t)
        probe("published")

    for p in range(cfg["npub"]):
        do_publish(p, 1)

    def forge(kind, p, x):
        """-> (element, is_good_new_for_subscriber_callable or None)"""
        pub = pubs[p]
        lst = signed_t[pub["key_s"]]
        latest = lst[-1]
        msg, sig, key = latest
        if kind == "latest" or kind == "dup":
            return latest
        if kind == "old":
            return lst[x % len(lst)]
        if kind == "wrong-key":
            other = pubs[(p + 1) % len(pubs)]["key_s"] if len(pubs) > 1 else akey_s
            return (msg, sig, other)
        if kind == "flip-msg":
            b = bytearray(msg)
            b[x % len(b)] ^= 1
            return (bytes(b), sig, key)
        if kind == "flip-sig":
            return (msg, sig[:-1] + (b"a" if sig[-1:] != b"a" else b"b"), key)
        if kind == "no-v0-sig":
            return (msg, sig[3:], key)
        if kind == "empty-sig":
            return (msg, b"", key)
        if kind == "none-sig":
            return (msg, None, key)
        if kind == "bad-key-b32":
            return (msg, sig, b"v0-!!!not-base32!!!")
        if kind == "short-tuple":
            return (msg, sig)
        # the following are validly signed by the adversary's own key (a buggy or hostile *publisher*)
        if kind == "not-json":
            m = b"{this is not json"
        elif kind == "no-service-name":
            m = json.dumps({"seqnum": 5, "nickname": "adv"}).encode()
        elif kind == "no-seqnum":
            m = json.dumps({"service-name": "storage", "nickname": "adv", "anonymous-storage-FURL": "pb://%s@nowhere/x" % ("b" * 32), "v": x % 3}).encode()
        elif kind == "str-seqnum":
            m = json.dumps({"service-name": "storage", "nickname": "adv", "seqnum": "17", "anonymous-storage-FURL": "pb://%s@nowhere/x" % ("b" * 32), "v": x % 3}).encode()
        elif kind == "other-service":
            m = json.dumps({"service-name": "stub_client", "seqnum": x % 50, "nickname": "adv"}).encode()
        else:   # own-key: a proper announcement by the adversary's key with a drawn seqnum
            m = json.dumps({"service-name": "storage", "nickname": "adv", "seqnum": x % 6, "anonymous-storage-FURL": "pb://%s@nowhere/x" % ("b" * 32), "v": x % 4}).encode()
        s_ = b"v0-" + base32.b2a(ed25519.sign_data(apriv, m))
        try:
            genuine[akey_s].append(json.loads(m.decode()))
        except ValueError:
            pass
        return (m, s_, akey_s)

    def held(sub, key_s):
        idx = ("storage", key_s)
        e = sub["client"]._inbound_announcements.get(idx)
        return e[0] if e else None

    for opi, op in enumerate(case["ops"]):
        k = op[0]
        if k == "publish":
            do_publish(op[1], op[2])
        elif k == "cache-fault":
            subs[op[1] % len(subs)]["cache_faults"] = op[2]
        elif k == "service-relay":
            # the publisher (re)connects to the real service and publishes; subscribers that are connected get it relayed
            pub = pubs[op[1]]
            pub_node = {"client": pub["client"], "name": pub["name"], "connected": False}
            connect(pub_node)
            for s in subs:
                if not s["connected"]:
                    connect(s)
            R.run_until(None, 50000)
            probe("service-relay")
        elif k == "reconnect":
            s = subs[op[1]]
            if s["connected"]:
                net.disconnect(s["name"], "intro", "reconnect")
                R.run_until(None, 50000)
                net.heal(s["name"], "intro")
            connect(s)
            R.run_until(None, 50000)
            probe("reconnect")
        elif k == "batch":
            _, si, els, order = op
            sub = subs[si]
            batch = []
            expect_new = {}     # key_s -> the good element that must be held after the batch (if newer than what is held)
            for (kind, p, x) in els:
                el = forge(kind, p % len(pubs), x)
                batch.append(el)
                if kind in ("latest", "dup"):
                    expect_new[pubs[p % len(pubs)]["key_s"]] = json.loads(el[0].decode())
                probe("el-" + kind)
            if order == "reversed":
                batch.reverse()
            elif order == "rotated" and batch:
                batch = batch[1:] + batch[:1]
            before = {ks: held(sub, ks) for ks in expect_new}
            try:
                sub["client"].remote_announce_v2(batch)
                probe("batch-returned")
            except Exception as e:
                probe("batch-raised-" + type(e).__name__)
            R.run_until(None, 50000)
            # (3) a bad element never suppresses the good ones of its batch
            for ks, ann in expect_new.items():
                cur = held(sub, ks)
                if cur is None or cur.get("seqnum", -1) < ann["seqnum"]:
                    bad("good-announcement-suppressed", "a genuine announcement (seqnum %d) in a batch with bad elements was not processed: subscriber holds %r; batch kinds %r order %s" % (
                        ann["seqnum"], cur.get("seqnum") if cur else None, [e[0] for e in els], order),
                        sig="C34.good-announcement-suppressed." + next((kk for (kk, _p, _x) in els if kk not in ("latest", "dup", "old")), "none"))
        # (1) authenticity and (2) freshness over everything delivered so far
        for s in subs:
            last = {}
            for (key_s, ann) in s["delivered"]:
                if ann not in genuine.get(key_s, []):
                    bad("forged-accepted", "subscriber %s accepted an announcement attributed to key %s that this key never signed: %r" % (s["name"], key_s[:12], ann))
                sq = ann.get("seqnum")
                if key_s in last and isinstance(sq, int) and isinstance(last[key_s], int) and sq <= last[key_s]:
                    bad("seqnum-went-back", "subscriber %s replaced seqnum %r by %r for key %s" % (s["name"], last[key_s], sq, key_s[:12]))
                if isinstance(sq, int):
                    last[key_s] = sq
                elif key_s in last:
                    bad("non-integer-seqnum-replaced", "subscriber %s replaced a numbered announcement by one without a valid seqnum (%r)" % (s["name"], sq))
        if viol:
            break
    # (4) liveness: faults stop, everything is re-sent through the real service
    if not viol:
        for pub in pubs:
            connect({"client": pub["client"], "name": pub["name"], "connected": False})
        for s in subs:
            if s["connected"]:
                net.disconnect(s["name"], "intro", "final reconnect")
                R.run_until(None, 50000)
                net.heal(s["name"], "intro")
            connect(s)
        R.run_until(None, 100000)
        for s in subs:
            for pub in pubs:
                cur = held(s, pub["key_s"])
                newest = genuine[pub["key_s"]][-1]
                if cur != newest:
                    bad("not-converged", "after faults stopped and everything was re-announced, subscriber %s holds seqnum %r of publisher %s, newest is %r" % (
                        s["name"], cur.get("seqnum") if cur else None, pub["name"], newest["seqnum"]))
        probe("final-convergence-checked")
    fp = hashlib.sha256(repr(sorted(probes.items())).encode()).hexdigest()[:16]
    if R.errors:
        viol.append({"clause": "C34.unhandled-error", "sig": "C34.unhandled-error", "detail": R.errors[0][1][-1200:]})
    return {"violations": viol[:4], "digest": R.digest(), "fingerprint": fp, "nontrivial": len(probes) >= 3, "events": R.events,
            "sim_s": R.true_seconds() - EPOCH, "faults": dict(net.fired), "probes": probes}
