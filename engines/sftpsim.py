"""sftpsim — OverwriteableFileConsumer (SFTP open-for-write file): client overwrites, truncations,
extensions and reads interleaved with the background download of the original contents, whose chunk
boundaries and arrival points the scheduler decides (DESIGN §4 C39)."""
import hashlib

from sim import boot
from sim.choice import Chooser

R = boot.install()

from twisted.internet import defer                                        # noqa: E402
from allmydata.frontends import sftpd                                      # noqa: E402
from allmydata.frontends.sftpd import OverwriteableFileConsumer            # noqa: E402
from engines.storesim import pat_bytes                                     # noqa: E402


class FakeProducer(object):
    def __init__(self):
        self.resumed = 0
        self.stopped = False

    def resumeProducing(self):
        self.resumed += 1

    def pauseProducing(self):
        pass

    def stopProducing(self):
        self.stopped = True


def gen_sftp(seed, tier):
    ch = Chooser(seed)
    size = ch.pick("config", "size", [0, 1, 10, 26, 100, 1000, 4096])
    ops = []
    W = "workload"
    for i in range(ch.randint(W, "nops", 1, 20)):
        k = ch.weighted(W, ("k", i), [("overwrite", 6), ("chunk", 6), ("read", 3), ("setsize", 2)])
        if k == "overwrite":
            ops.append(["overwrite", ch.pick(W, ("off", i), [0, 0, 1, 2, 5, 10, size // 2, max(0, size - 1), size, size + 3, ch.randrange(W, ("offr", i), size + 10)]),
                        ch.pick(W, ("len", i), [1, 1, 2, 3, 5, 10, 50, 300]), ch.randint(W, ("pat", i), 1, 1 << 30)])
        elif k == "chunk":
            ops.append(["chunk", ch.pick(W, ("clen", i), [1, 2, 3, 7, 10, 64, 500, 5000])])
        elif k == "read":
            ops.append(["read", ch.randrange(W, ("roff", i), size + 20), ch.pick(W, ("rlen", i), [1, 5, 10, 100, 5000])])
        else:
            ops.append(["setsize", ch.pick(W, ("ns", i), [0, 1, size // 2, max(0, size - 1), size, size + 1, size + 50, ch.randrange(W, ("nsr", i), size + 100)])])
    return {"engine": "sftpsim", "seed": seed, "cfg": {"size": size, "datapat": ch.randint("config", "pat", 1, 1 << 30),
                                                         "chunk": ch.pick("config", "chunk", [1, 3, 16, 100, 10000])}, "ops": ops}


def exec_sftp(case):
    R.reset_sim()
    cfg = case["cfg"]
    original = pat_bytes(cfg["datapat"], cfg["size"])
    viol, probes = [], {}

    def probe(nm):
        probes[nm] = probes.get(nm, 0) + 1

    def bad(clause, detail):
        viol.append({"clause": "C39." + clause, "sig": "C39." + clause, "detail": detail})

    c = OverwriteableFileConsumer(len(original), sftpd.EncryptedTemporaryFile)
    prod = FakeProducer()
    c.registerProducer(prod, True)
    model = bytearray(original)
    sent = [0]     # bytes of the original handed to the consumer so far

    def deliver(n):
        """the download delivers the next n bytes of the original (if any are left)"""
        if sent[0] >= len(original):
            return False
        chunk = original[sent[0]:sent[0] + n]
        sent[0] += len(chunk)
        c.write(chunk)
        probe("download-chunk")
        R.run_until(None, 10000)
        return True

    for opi, op in enumerate(case["ops"]):
        k = op[0]
        try:
            if k == "overwrite":
                _, off, ln, pat = op
                data = pat_bytes(pat, ln)
                c.overwrite(off, data)
                if off > len(model):
                    model += b"\x00" * (off - len(model))
                model[off:off + ln] = data
                probe("overwrite" + ("-ahead-of-download" if off + ln > sent[0] else ""))
            elif k == "chunk":
                deliver(op[1])
            elif k == "setsize":
                ns = op[1]
                c.set_current_size(ns)
                if ns < len(model):
                    del model[ns:]
                    probe("truncate")
                else:
                    model += b"\x00" * (ns - len(model))
                    probe("extend")
            elif k == "read":
                _, off, ln = op
                box = []
                try:
                    d = c.read(off, ln)
                except Exception as e:
                    bad("read-raised", "read(%d,%d) raised %r" % (off, ln, e))
                    break
                d.addCallbacks(lambda r: box.append(("ok", r)), lambda f: box.append(("err", f)))
                R.run_until(None, 10000)
                # the contract: no overwrites until the read fires; the download goes on meanwhile
                guard = 0
                while not box and guard < 100000:
                    guard += 1
                    if not deliver(cfg["chunk"]):
                        c.download_done(b"finished")      # the real downloader signals completion
                        R.run_until(None, 10000)
                        break
                R.run_until(None, 10000)
                if not box:
                    bad("read-hung", "read(%d,%d) never fired although the whole download was delivered" % (off, ln))
                    break
                st, res = box[0]
                if off >= len(model):
                    probe("read-eof")
                    if st != "err" or not res.check(EOFError):
                        bad("read-past-eof", "read at offset %d >= size %d returned %s" % (off, len(model), st))
                else:
                    want = bytes(model[off:off + ln])
                    probe("read")
                    if st != "ok":
                        bad("read-failed", "read(%d,%d) failed: %s" % (off, ln, res.getErrorMessage()[:200]))
                    elif res != want:
                        from engines.immsim import first_diff
                        bad("read-bytes", "read(%d,%d) returned bytes that differ from original-plus-client-writes at relative offset %d (ops so far %r, downloaded %d of %d)" % (
                            off, ln, first_diff(res, want), case["ops"][:opi + 1], sent[0], len(original)))
        except AssertionError as e:
            bad("assertion", "internal assertion in op %d %r: %r" % (opi, op, e))
        if viol:
            break
    if not viol:
        # let the download finish, then compare the whole file
        while deliver(cfg["chunk"]):
            pass
        c.download_done(b"finished")
        R.run_until(None, 10000)
        if c.get_current_size() != len(model):
            bad("final-size", "current size %d, reference %d" % (c.get_current_size(), len(model)))
        else:
            f = c.get_file()
            f.seek(0)
            got = f.read(len(model))
            if got != bytes(model):
                from engines.immsim import first_diff
                bad("final-contents", "contents to be uploaded differ from original-plus-client-writes at offset %d (size %d; ops %r)" % (
                    first_diff(got, bytes(model)), len(model), case["ops"]))
        try:
            c.close()
        except Exception:
            pass
    fp = hashlib.sha256(repr(sorted(probes.items())).encode()).hexdigest()[:16]
    dg = hashlib.sha256((R.digest() + repr([v["clause"] for v in viol]) + repr(sorted(probes.items()))).encode()).hexdigest()
    return {"violations": viol[:3], "digest": dg, "fingerprint": fp, "nontrivial": len(probes) >= 2, "events": R.events, "sim_s": 0.0,
            "faults": {}, "probes": probes}
