"""sftpsim — OverwriteableFileConsumer (SFTP open-for-write file): client overwrites, truncations,
extensions and reads interleaved with the background download of the original contents, whose chunk
boundaries and arrival points the scheduler decides (DESIGN §4 C39)."""
import hashlib

from sim import boot
from sim.choice import Chooser

R = boot.install()

from twisted.internet import defer                                        # noqa: E402
from allmydata.frontends import sftpd                                      # noqa: E402
from allmydata.frontends.sftpd import OverwriteableFileConsumer            # noqa: E402
from engines.storesim import pat_bytes                                     # noqa: E402


class FakeProducer(object):
    def __init__(self):
        self.resumed = 0
        self.stopped = False

    def resumeProducing(self):
        self.resumed += 1

    def pauseProducing(self):
        pass

    def stopProducing(self):
        self.stopped = True


def gen_sftp(seed, tier):
    ch = Chooser(seed)
    size = ch.pick("config", "size", [0, 1, 10, 26, 100, 1000, 4096])
    ops = []
    W = "workload"
    for i in range(ch.randint(W, "nops", 1, 20)):
        k = ch.weighted(W, ("k", i), [("overwrite", 6), ("chunk", 6), ("read", 3), ("setsize", 2)])
        if k == "overwrite":
            ops.append(["overwrite", ch.pick(W, ("off", i), [0, 0, 1, 2, 5, 10, size // 2, max(0, size - 1), size, size + 3, ch.randrange(W, ("offr", i), size + 10)]),
                        ch.pick(W, ("len", i), [1, 1, 2, 3, 5, 10, 50, 300]), ch.randint(W, ("pat", i), 1, 1 << 30)])
        elif k == "chunk":
            ops.append(["chunk", ch.pick(W, ("clen", i), [1, 2, 3, 7, 10, 64, 500, 5000])])
        elif k == "read":
            ops.append(["read", ch.randrange(W, ("roff", i), size + 20), ch.pick(W, ("rlen", i), [1, 5, 10, 100, 5000])])
        else:
            ops.append(["setsize", ch.pick(W, ("ns", i), [0, 1, size // 2, max(0, size - 1), size, size + 1, size + 50, ch.randrange(W, ("nsr", i), size + 100)])])
    return {"engine": "sftpsim", "seed": seed, "cfg": {"size": size, "datapat": ch.randint("config", "pat", 1, 1 << 30),
                                                         "chunk": ch.pick("config", "chunk", [1, 3, 16, 100, 10000])}, "ops": ops}


def exec_sftp(case):
    R.reset_sim()
    cfg = case["cfg"]
    original = pat_bytes(cfg["datapat"], cfg["size"])
    viol, probes = [], {}

    def probe(nm):
        probes[nm] = probes.get(nm, 0) + 1

    def bad(clause, detail):
        viol.append({"clause": "C39." + clause, "sig": "C39." + clause, "detail": detail})

    c = OverwriteableFileConsumer(len(original), sftpd.EncryptedTemporaryFile)
    prod = FakeProducer()
    c.registerProducer(prod, True)
    model = bytearray(original)
    sent = [0]     # bytes of the original handed to the consumer so far

    def deliver(n):
        """the download delivers the next n bytes of the original (if any are left)"""
        if sent[0] >= len(original):
            return False
        chunk = original[sent[0]:sent[0] + n]
        sent[0] += len(chunk)
        c.write(chunk)
        probe("download-chunk")
        R.run_until(None, 10000)
        return True

    for opi, op in enumerate(case["ops"]):
        k = op[0]
        try:
            if k == "overwrite":
                _, off, ln, pat = op
                data = pat_bytes(pat, ln)
                c.overwrite(off, data)
                if off > len(model):
                    model += b"\x00" * (off - len(model))
                model[off:off + ln] = data
                probe("overwrite" + ("-ahead-of-download" if off + ln > sent[0] else ""))
            elif k == "chunk":
                deliver(op[1])
            elif k == "setsize":
                ns = op[1]
                c.set_current_size(ns)
                if ns < len(model):
                    del model[ns:]
                    probe("truncate")
                else:
                    model += b"\x00" * (ns - len(model))
                    probe("extend")
            elif k == "read":
                _, off, ln = op
                box = []
                try:
                    d = c.read(off, ln)
                except Exception as e:
                    bad("read-raised", "read(%d,%d) raised %r" % (off, ln, e))
                    break
                d.addCallbacks(lambda r: box.append(("ok", r)), lambda f: box.append(("err", f)))
                R.run_until(None, 10000)
                # the contract: no overwrites until the read fires; the download goes on meanwhile
                guard = 0
                while not box and guard < 100000:
                    guard += 1
                    if not deliver(cfg["chunk"]):
                        c.download_done(b"finished")      # the real downloader signals completion
                        R.run_until(None, 10000)
                        break
                R.run_until(None, 10000)
                if not box:
                    bad("read-hung", "read(%d,%d) never fired although the whole download was delivered" % (off, ln))
                    break
                st, res = box[0]
                if off >= len(model):
                    probe("read-eof")
                    if st != "err" or not res.check(EOFError):
                        bad("read-past-eof", "read at offset %d >= size %d returned %s" % (off, len(model), st))
                else:
                    want = bytes(model[off:off + ln])
                    probe("read")
                    if st != "ok":
                        bad("read-failed", "read(%d,%d) failed: %s" % (off, ln, res.getErrorMessage()[:200]))
                    elif res != want:
                        from engines.immsim import first_diff
                        bad("read-bytes", "read(%d,%d) returned bytes that differ from original-plus-client-writes at relative offset %d (ops so far %r, downloaded %d of %d)" % (
                            off, ln, first_diff(res, want), case["ops"][:opi + 1], sent[0], len(original)))
        except AssertionError as e:
            bad("assertion", "internal assertion in op %d %r: %r" % (opi, op, e))
        if viol:
            break
    if not viol:
        # let the download finish, then compare the whole file
        while deliver(cfg["chunk"]):
            pass
        c.download_done(b"finished")
        R.run_until(None, 10000)
        if c.get_current_size() != len(model):
            bad("final-size", "current size %d, reference %d" % (c.get_current_size(), len(model)))
        else:
            f = c.get_file()
            f.seek(0)
            got = f.read(len(model))
            if got != bytes(model):
                from engines.immsim import first_diff
                bad("final-contents", "contents to be uploaded differ from original-plus-client-writes at offset %d (size %d; ops %r)" % (
                    first_diff(got, bytes(model)), len(model), case["ops"]))
        try:
            c.close()
        except Exception:
            pass
    fp = hashlib.sha256(repr(sorted(probes.items())).encode()).hexdigest()[:16]
    dg = hashlib.sha256((R.digest() + repr([v["clause"] for v in viol]) + repr(sorted(probes.items()))).encode()).hexdigest()
    return {"violations": viol[:3], "digest": dg, "fingerprint": fp, "nontrivial": len(probes) >= 2, "events": R.events, "sim_s": 0.0,
            "faults": {}, "probes": probes}


# ------------------------------------------------------------------------------------------
# profile "handle": GeneralSFTPFile (open for read+write on an existing file) over a real client on
# a simulated grid.  The background download is the real downloader (immutable) / Retrieve (mutable)
# whose segments arrive when the simulated network delivers them; the client's writeChunk / setAttrs /
# readChunk calls are issued at drawn simulated instants, so they race with the download; close()
# commits through the real dirnode / mutable node.  Reference: original bytes with the client's
# operations applied in call order (the handle queues them FIFO).
# ------------------------------------------------------------------------------------------
def gen_handle(seed, tier):
    ch = Chooser(seed)
    W = "workload"
    kind = ch.pick("config", "kind", ["chk", "chk", "sdmf", "mdmf"])
    k = ch.pick("config", "k", [1, 1, 2])
    seg = ch.pick("config", "seg", [16 * k, 50 * k, 256, 4096])
    size = ch.pick("config", "size", [56, 100, 3 * seg + 1, 5 * seg, 8 * seg - 3, 1000])
    ops = []
    for i in range(ch.randint(W, "nops", 1, 12)):
        kd = ch.weighted(W, ("k", i), [("write", 6), ("read", 4), ("setsize", 1.5)])
        at = ch.pick(W, ("at", i), [0.0, 0.0, 0.0003, 0.001, 0.002, 0.004, 0.01, 0.05, 0.5])
        if kd == "write":
            ops.append(["write", at, ch.pick(W, ("off", i), [0, 1, seg - 1, seg, 2 * seg + 3, size // 2, max(0, size - 1), size, size + 5, ch.randrange(W, ("offr", i), size + 10)]),
                        ch.pick(W, ("len", i), [1, 2, 7, seg, seg + 1, 3 * seg]), ch.randint(W, ("pat", i), 1, 1 << 30)])
        elif kd == "read":
            ops.append(["read", at, ch.randrange(W, ("roff", i), size + 20), ch.pick(W, ("rlen", i), [1, 10, seg, 2 * seg + 1, 5000])])
        else:
            ops.append(["setsize", at, ch.pick(W, ("ns", i), [0, 1, size // 2, max(0, size - 1), size + 1, size + 50, ch.randrange(W, ("nsr", i), size + 100)])])
    return {"engine": "sftpsim", "profile": "handle", "seed": seed,
            "cfg": {"kind": kind, "k": k, "n": ch.pick("config", "n", [2, 3]), "seg": seg, "size": size, "datapat": ch.randint("config", "pat", 1, 1 << 30),
                    "nservers": ch.randint("config", "ns", 2, 4), "append": ch.chance("config", "append", 0.1),
                    "knobs": {"mseg": seg},
                    "net": {"threads": ch.pick("config", "threads", ["sync", "async"]), "lat_profile": ch.pick("config", "lat", ["uniform", "heavy", "fifo"]),
                            "jitter": ch.pick("config", "jit", [0.0005, 0.005, 0.05]), "base_lat": 0.001, "batch": ch.pick("config", "batch", [0, 0, 0, 0.001, 0.02, 0.3])}},
            "ops": ops}


def exec_handle(case):
    import tempfile
    from sim.runner import child_tmp
    from sim.reactor import EventCap
    from engines import gridsim, mutsim, immsim
    from engines.gridsim import Grid, run, settle
    from allmydata.immutable.upload import Data
    from allmydata.mutable.publish import MutableData
    from allmydata.interfaces import SDMF_VERSION, MDMF_VERSION
    from twisted.python.failure import Failure
    cfg = case["cfg"]
    base = tempfile.mkdtemp(dir=child_tmp())
    R.reset_sim()
    mutsim.apply_knobs(cfg["knobs"])
    immsim.apply_knobs({})
    viol, probes = [], {}

    def probe(nm):
        probes[nm] = probes.get(nm, 0) + 1

    def bad(clause, detail):
        viol.append({"clause": "C39." + clause, "sig": "C39." + clause, "detail": detail})

    def result():
        fp = hashlib.sha256(repr((cfg["kind"], sorted(probes.items()))).encode()).hexdigest()[:16]
        return {"violations": viol[:3], "digest": R.digest(), "fingerprint": fp, "nontrivial": len(probes) >= 3, "events": R.events,
                "sim_s": R.true_seconds() - gridsim.EPOCH, "faults": {}, "probes": probes}

    g = Grid(case["seed"], base, cfg["net"])
    try:
        for i in range(cfg["nservers"]):
            g.add_server()
        c = g.add_client(k=cfg["k"], happy=1, n=cfg["n"], segsize=cfg["seg"])
        original = pat_bytes(cfg["datapat"], cfg["size"])
        st, parent = run(c.create_dirnode())
        if st != "ok":
            return result()
        if cfg["kind"] == "chk":
            st, fnode = run(parent.add_file(u"f", Data(original, convergence=b"")))
        else:
            ver = MDMF_VERSION if cfg["kind"] == "mdmf" else SDMF_VERSION
            st, fnode = run(c.create_mutable_file(MutableData(original), version=ver))
            if st == "ok":
                st, _ = run(parent.set_node(u"f", fnode))
        if st != "ok":
            return result()
        settle(400_000)
        st, (filenode, md) = run(parent.get_child_and_metadata(u"f"))
        flags = sftpd.FXF_READ | sftpd.FXF_WRITE | (sftpd.FXF_APPEND if cfg.get("append") else 0)
        h = sftpd.GeneralSFTPFile(b"/f", flags, None, b"")
        h.open(parent=parent, childname=u"f", filenode=filenode, metadata=md)
        model = bytearray(original)
        pending = []     # (op, box, expectation)
        wrote = [False]

        def issue(op):
            k_ = op[0]
            box = {}
            if k_ == "write":
                _, at, off, ln, pat = op
                data = pat_bytes(pat, ln)
                woff = len(model) if cfg.get("append") else off
                d = h.writeChunk(off, data)
                if woff > len(model):
                    model.extend(b"\x00" * (woff - len(model)))
                model[woff:woff + ln] = data
                wrote[0] = True
                exp = None
                probe("write")
            elif k_ == "setsize":
                _, at, ns = op
                d = h.setAttrs({"size": ns})
                if ns < len(model):
                    del model[ns:]
                    probe("truncate")
                else:
                    model.extend(b"\x00" * (ns - len(model)))
                    probe("extend")
                exp = None
            else:
                _, at, off, ln = op
                d = h.readChunk(off, ln)
                exp = ("eof",) if off >= len(model) else ("bytes", bytes(model[off:off + ln]))
                probe("read")
            d.addCallbacks(lambda r, box=box: box.setdefault("r", ("ok", r)), lambda f, box=box: box.setdefault("r", ("err", f)))
            pending.append((op, box, exp))

        # the handle queues requests in call order: issue them in list order at non-decreasing instants
        t_acc = 0.0
        issue_at = []
        for op in case["ops"]:
            t_acc = max(t_acc, op[1])
            issue_at.append((t_acc, op))
        t0 = R.true_seconds()

        def reads_outstanding():
            return [1 for (op_, box_, exp_) in pending if op_[0] == "read" and "r" not in box_]
        for (t_, op) in issue_at:
            try:
                if t0 + t_ > R.true_seconds():
                    R.run_until(None, 400_000, until_time=t0 + t_)
                if op[0] != "read" and reads_outstanding():
                    # OverwriteableFileConsumer.read: "the caller must perform no more overwrites until the Deferred has
                    # fired" -- a client that wants ordered semantics waits for its reads before it writes or truncates
                    # (several reads may be outstanding together)
                    R.run_until(lambda: not reads_outstanding(), 400_000)
                    probe("waited-for-reads-before-write")
            except EventCap:
                bad("livelock", "the handle never quiesces")
                return result()
            if op[0] != "read" and reads_outstanding():
                bad("request-hung", "a read never completed (queue drained) before %r" % (op,))
                return result()
            issue(op)
        try:
            R.run_until(lambda: not reads_outstanding(), 400_000)
        except EventCap:
            bad("livelock", "the handle never quiesces")
            return result()
        closebox = {}
        dcl = h.close()
        dcl.addCallbacks(lambda r: closebox.setdefault("r", ("ok", r)), lambda f: closebox.setdefault("r", ("err", f)))
        try:
            settle(600_000)
        except EventCap:
            bad("livelock", "the handle never quiesces")
            return result()
        for (op, box, exp) in pending:
            if "r" not in box:
                bad("request-hung", "%r never completed (queue drained)" % (op,))
                break
            stt, res = box["r"]
            if op[0] != "read":
                if stt != "ok":
                    bad("request-failed", "%r failed: %s" % (op, res.getErrorMessage()[:200]))
                continue
            if exp[0] == "eof":
                probe("read-eof")
                if stt == "ok" and res != b"":
                    bad("read-past-eof", "readChunk at offset %d >= size returned %d bytes" % (op[2], len(res)))
            elif stt != "ok":
                bad("read-failed", "%r failed: %s" % (op, res.getErrorMessage()[:200]))
            elif res != exp[1]:
                bad("read-bytes", "readChunk(%d,%d) returned bytes that differ from original-plus-client-writes at relative offset %d (%s file, %d bytes, segment %d; ops %r)" % (
                    op[2], op[3], immsim.first_diff(res, exp[1]), cfg["kind"], cfg["size"], cfg["seg"], case["ops"]))
        if "r" not in closebox:
            bad("close-hung", "close() never completed")
        elif closebox["r"][0] != "ok":
            bad("close-failed", "close() failed: %s" % closebox["r"][1].getErrorMessage()[:300])
        elif wrote[0] and not viol:
            # what was committed to the grid, read back through a fresh client
            rd = g.add_client(k=cfg["k"], happy=1, n=cfg["n"])
            st, child = run(rd.create_node_from_uri(parent.get_uri()).get(u"f"), 400_000)
            if st == "ok":
                if child.is_mutable():
                    st, got = run(child.download_best_version(), 400_000)
                else:
                    from allmydata.util.consumer import download_to_data
                    st, got = run(download_to_data(child), 400_000)
            if st != "ok":
                bad("final-read-failed", "reading the committed file back failed")
            elif got != bytes(model):
                bad("final-contents", "the committed file (%d bytes) differs from original-plus-client-writes (%d bytes) at offset %d (%s, segment %d; ops %r)" % (
                    len(got), len(model), immsim.first_diff(got, bytes(model)), cfg["kind"], cfg["seg"], case["ops"]))
            probe("committed-compared")
        return result()
    finally:
        g.close()
