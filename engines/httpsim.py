"""httpsim — real HTTPServer resource + real StorageClient* classes joined in memory by
treq.testing.StubTreq; the global Cooperator that drives pull producers and StubTreq.flush() are
pumped by the simulator, so chunk boundaries of streamed bodies are schedule points (DESIGN §3).
Profiles: 'auth' (C30) and 'twin' (C31: the same history through HTTP and directly on a twin server)."""
import hashlib
import os
import tempfile
from base64 import b64encode

from sim import boot
from sim.choice import Chooser
from sim.reactor import EPOCH

R = boot.install()

from twisted.internet import task as task_mod, defer                        # noqa: E402
from twisted.internet.task import Cooperator                                  # noqa: E402
from twisted.python.failure import Failure                                    # noqa: E402
from twisted.web.http_headers import Headers                                  # noqa: E402
from hyperlink import DecodedURL                                              # noqa: E402
from treq.testing import StubTreq                                             # noqa: E402

from allmydata.storage.server import StorageServer                            # noqa: E402
from allmydata.storage.http_server import HTTPServer                           # noqa: E402
from allmydata.storage.http_client import (StorageClient, StorageClientImmutables, StorageClientMutables,   # noqa: E402
                                           StorageClientGeneral, ClientException, TestWriteVectors, TestVector,
                                           WriteVector, ReadVector)
from allmydata.storage.http_common import swissnum_auth_header               # noqa: E402
from allmydata.storage.common import si_b2a, storage_index_to_dir                                   # noqa: E402
from allmydata.interfaces import BadWriteEnablerError                         # noqa: E402
from engines.storesim import pat_bytes, si_of, secret_of                      # noqa: E402

SWISS = b"abcdefghijklmnop-swissnum"


def tree_digest(ss, http=None):
    h = hashlib.sha256()
    n = 0
    for root, dirs, files in sorted(os.walk(ss.storedir)):
        dirs.sort()
        for f in sorted(files):
            p = os.path.join(root, f)
            h.update(os.path.relpath(p, ss.storedir).encode())
            with open(p, "rb") as fh:
                h.update(fh.read())
            n += 1
    if http is not None:
        ups = http._uploads._uploads
        h.update(repr(sorted((k, sorted(v.shares), sorted(v.upload_secrets.items())) for k, v in ups.items())).encode())
    h.update(b"%d" % ss.allocated_size())
    return h.hexdigest()


class Rig(object):
    def __init__(self, base, name):
        self.ss = StorageServer(os.path.join(base, name), b"\x7a" * 20, clock=R)
        self.ss.bucket_counter.disownServiceParent()
        self.ss.lease_checker.disownServiceParent()
        self.http = HTTPServer(R, self.ss, SWISS)
        self.treq = StubTreq(self.http.get_resource())
        self.client = StorageClient(DecodedURL.from_text("http://127.0.0.1"), SWISS, treq=self.treq, pool=None, clock=R,
                                    analyze_response=lambda r: None)
        self.imm = StorageClientImmutables(self.client)
        self.mut = StorageClientMutables(self.client)
        self.gen = StorageClientGeneral(self.client)

    def drive(self, d, max_iter=20000):
        box = []
        d.addCallbacks(lambda r: box.append(("ok", r)), lambda f: box.append(("err", f)))
        i = 0
        while not box and i < max_iter:
            i += 1
            self.treq.flush()
            R.advance(0.0005)
        if not box:
            return ("hung", None)
        return box[0]

    def raw(self, method, path, headers, data=None):
        """an arbitrary request -> (code, body)"""
        d = self.treq.request(method, "http://127.0.0.1" + path, headers=headers, data=data)
        st, resp = self.drive(d)
        if st != "ok":
            return (st, resp)
        st2, body = self.drive(resp.content())
        return (resp.code, body if st2 == "ok" else b"")


def install_cooperator():
    task_mod._theCooperator = Cooperator(scheduler=lambda c: R.callLater(0.000001, c))


def next_second():
    """start every operation shortly after a whole simulated second, so both twins stamp leases alike"""
    now = R.true_seconds()
    R.advance((int(now) + 1 + 0.05) - now)


# ------------------------------------------------------------------------------------------
# C30
# ------------------------------------------------------------------------------------------
ROUTES = [("GET", "/storage/v1/version", None), ("POST", "/storage/v1/immutable/{si}", "cbor-create"), ("PATCH", "/storage/v1/immutable/{si}/{sh}", "range"),
          ("PUT", "/storage/v1/immutable/{si}/{sh}/abort", None), ("GET", "/storage/v1/immutable/{si}/shares", None), ("GET", "/storage/v1/immutable/{si}/{sh}", None),
          ("PUT", "/storage/v1/lease/{si}", None), ("POST", "/storage/v1/immutable/{si}/{sh}/corrupt", "cbor-reason"),
          ("POST", "/storage/v1/mutable/{si}/read-test-write", "cbor-rtw"), ("GET", "/storage/v1/mutable/{si}/{sh}", None),
          ("GET", "/storage/v1/mutable/{si}/shares", None), ("POST", "/storage/v1/mutable/{si}/{sh}/corrupt", "cbor-reason")]
AUTH = ["missing", "wrong", "malformed", "duplicated", "nonutf8", "correct", "wrong-case", "prefix-only"]
XAUTH = ["missing", "wrong-names", "bad-base64", "wrong-length", "duplicated", "other-upload", "correct", "empty-value", "extra-secret"]
# the second line of defence (right swissnum, wrong per-object secret) is as important as the first: sample it often
AUTH_W = AUTH + ["correct"] * 4
XAUTH_W = XAUTH + ["other-upload"] * 3 + ["correct"] + ["sibling-upload"] * 2


def gen_auth(seed, tier):
    ch = Chooser(seed)
    W = "workload"
    ops = [["legit-upload-start", 0, 2, 100], ["legit-mutable", 1]]
    for i in range(ch.randint(W, "nops", 4, 24)):
        k = ch.weighted(W, ("k", i), [("attack", 10), ("legit-write", 2), ("legit-upload-start", 1), ("legit-finish", 1), ("legit-read", 1), ("overlap-create", 1.2)])
        if k == "overlap-create":
            # another client (right swissnum, its own well-formed secrets) asks to create shares of a storage index where an
            # upload is in progress, naming some of the same share numbers, with a drawn Accept header (the request may be refused
            # late, after buckets were made): the first uploader's shares need the first uploader's secret to be touched
            ops.append(["overlap-create", ch.randrange(W, ("si", i), 3), sorted(ch.sample(W, ("oshs", i), range(4), ch.randint(W, ("onsh", i), 1, 3))),
                        ch.pick(W, ("oaccept", i), ["application/cbor", "application/json", "application/json", "text/html", None, "*/*"]),
                        ch.pick(W, ("osize", i), [10, 50, 100, 300])])
        elif k == "attack":
            ops.append(["attack", ch.pick(W, ("route", i), list(range(len(ROUTES))) + [8, 8, 1, 2]), ch.pick(W, ("auth", i), AUTH_W), ch.pick(W, ("xauth", i), XAUTH_W),
                        ch.randrange(W, ("si", i), 3), ch.randrange(W, ("sh", i), 3), ch.randrange(W, ("x", i), 1 << 30)])
        elif k == "legit-upload-start":
            ops.append(["legit-upload-start", ch.randrange(W, ("si", i), 3), ch.randint(W, ("nsh", i), 1, 2), ch.pick(W, ("size", i), [10, 100, 300])])
        elif k == "legit-write":
            ops.append(["legit-write", ch.randrange(W, ("x", i), 1 << 30)])
        elif k == "legit-finish":
            ops.append(["legit-finish"])
        else:
            ops.append(["legit-read", ch.randrange(W, ("si", i), 3)])
    return {"engine": "httpsim", "profile": "auth", "seed": seed, "cfg": {}, "ops": ops}


def exec_auth(case):
    from sim.runner import child_tmp
    import cbor2
    base = tempfile.mkdtemp(dir=child_tmp())
    R.reset_sim()
    install_cooperator()
    rig = Rig(base, "srv")
    viol, probes = [], {}

    def probe(nm, c=1):
        probes[nm] = probes.get(nm, 0) + c

    def bad(clause, detail, sig=None):
        viol.append({"clause": "C30." + clause, "sig": sig or "C30." + clause, "detail": detail})
    uploads = {}      # (si_i, sh) -> dict(secret, size, content pat, written)
    share_patterns = []
    mut_si = None

    def good_secret(kind, i):
        return secret_of(kind, i)

    for opi, op in enumerate(case["ops"]):
        k = op[0]
        R.note(repr(op))
        if k == "legit-upload-start":
            _, si_i, nsh, size = op
            us = secret_of("upload", 100 + opi)
            st, r = rig.drive(rig.imm.create(si_of(si_i), set(range(nsh)), size, us, good_secret("renew", 1), good_secret("cancel", 1)))
            if st == "ok":
                for sh in r.allocated:
                    uploads[(si_i, sh)] = {"secret": us, "size": size, "pat": 1000 + opi * 10 + sh, "written": 0}
                probe("legit-create")
        elif k == "legit-write":
            live = sorted(kx for kx, u in uploads.items() if u["written"] < u["size"])
            if live:
                key = live[op[1] % len(live)]
                u = uploads[key]
                ln = max(1, min(u["size"] - u["written"], 1 + op[1] % 60))
                data = pat_bytes(u["pat"], ln, u["written"])
                st, r = rig.drive(rig.imm.write_share_chunk(si_of(key[0]), key[1], u["secret"], u["written"], data))
                if st == "ok":
                    u["written"] += ln
                    probe("legit-write")
        elif k == "legit-finish":
            for key, u in sorted(uploads.items()):
                if u["written"] < u["size"]:
                    data = pat_bytes(u["pat"], u["size"] - u["written"], u["written"])
                    st, r = rig.drive(rig.imm.write_share_chunk(si_of(key[0]), key[1], u["secret"], u["written"], data))
                    if st == "ok":
                        u["written"] = u["size"]
                        share_patterns.append(pat_bytes(u["pat"], min(16, u["size"])))
                        probe("legit-finish")
        elif k == "legit-mutable":
            mut_si = si_of(10 + op[1])
            mdata = pat_bytes(4242, 64)
            st, r = rig.drive(rig.mut.read_test_write_chunks(mut_si, good_secret("we", 7), good_secret("renew", 2), good_secret("cancel", 2),
                                                             {0: TestWriteVectors(test_vectors=[], write_vectors=[WriteVector(offset=0, data=mdata)])}, []))
            if st == "ok":
                share_patterns.append(mdata[:16])
                probe("legit-mutable")
        elif k == "legit-read":
            st, r = rig.drive(rig.imm.list_shares(si_of(op[1])))
            probe("legit-read")
        elif k == "overlap-create":
            _, si_i, oshs, accept, osize = op
            live_up = sorted(kx for kx, u in uploads.items() if u["written"] < u["size"])
            if live_up:
                si_i = live_up[osize % len(live_up)][0]         # aim at a storage index with an upload really in progress
            tsi = si_of(si_i)
            mine = secret_of("upload", 31337)
            h2 = Headers()
            h2.addRawHeader("Authorization", swissnum_auth_header(SWISS))
            for nm_, val_ in (("upload-secret", mine), ("lease-renew-secret", good_secret("renew", 8)), ("lease-cancel-secret", good_secret("cancel", 8))):
                h2.addRawHeader("X-Tahoe-Authorization", nm_.encode() + b" " + b64encode(val_))
            h2.addRawHeader("Content-Type", "application/cbor")
            if accept is not None:
                h2.addRawHeader("Accept", accept)

            def victims():
                ups_ = rig.http._uploads._uploads.get(tsi)
                out = {}
                if ups_ is not None:
                    for sh_, sec_ in ups_.upload_secrets.items():
                        if sec_ != mine:
                            p_ = os.path.join(rig.ss.incomingdir, storage_index_to_dir(tsi), "%d" % sh_)
                            out[sh_] = (sec_, open(p_, "rb").read() if os.path.exists(p_) else None)
                return out
            v0 = victims()
            code, rbody = rig.raw("POST", "/storage/v1/immutable/" + si_b2a(tsi).decode("ascii"), h2,
                                  cbor2.dumps({"share-numbers": set(oshs), "allocated-size": osize}))
            v1 = victims()
            probe("overlap-create-%s" % code)
            if v0:
                probe("overlap-create-on-live-upload")
            for sh_, (sec_, blob_) in sorted(v0.items()):
                if v1.get(sh_) != (sec_, blob_):
                    bad("foreign-create-touched-upload", "POST immutable/<si> naming shares %r (Accept: %r, answered %r) by a client with its own secrets %s the in-progress "
                        "upload of share %d, which was started under another upload secret" % (
                            oshs, accept, code, "removed" if sh_ not in v1 else "changed", sh_))
                    break
            # resync our view of the legitimate uploads
            for key, u in list(uploads.items()):
                ups = rig.http._uploads._uploads.get(si_of(key[0]))
                if (ups is None or key[1] not in ups.shares) and u["written"] < u["size"]:
                    u["written"] = u["size"]
        elif k == "attack":
            _, ri, auth, xauth, si_i, sh, x = op
            method, path, bodykind = ROUTES[ri]
            live_up = sorted(kx for kx, u in uploads.items() if u["written"] < u["size"])
            if live_up and (method == "PATCH" or path.endswith("/abort")) and x % 10 < 7:
                si_i, sh = live_up[x % len(live_up)]        # aim at an upload that is really in progress
            target_si = mut_si if ("/mutable/" in path and mut_si is not None and x % 4) else si_of(si_i)
            path = path.format(si=si_b2a(target_si).decode("ascii"), sh=sh)
            hdrs = Headers()
            good_auth = swissnum_auth_header(SWISS)
            if auth == "wrong":
                hdrs.addRawHeader("Authorization", swissnum_auth_header(b"not-the-swissnum"))
            elif auth == "malformed":
                hdrs.addRawHeader("Authorization", b"Basic zzzz")
            elif auth == "duplicated":
                hdrs.addRawHeader("Authorization", swissnum_auth_header(b"nope"))
                hdrs.addRawHeader("Authorization", good_auth)
            elif auth == "nonutf8":
                hdrs.addRawHeader("Authorization", b"Tahoe-LAFS \xff\xfe")
            elif auth == "correct":
                hdrs.addRawHeader("Authorization", good_auth)
            elif auth == "wrong-case":
                hdrs.addRawHeader("Authorization", good_auth.swapcase())
            elif auth == "prefix-only":
                hdrs.addRawHeader("Authorization", good_auth[:len(good_auth) // 2])
            up = uploads.get((si_i, sh))
            own_upload_secret = up["secret"] if up else secret_of("upload", 1)
            other_secret = secret_of("upload", 999999)

            def xa(name, value):
                hdrs.addRawHeader("X-Tahoe-Authorization", name.encode() + b" " + b64encode(value))
            correct_secrets = False
            if xauth == "wrong-names":
                xa("not-a-secret", b"x" * 32)
            elif xauth == "bad-base64":
                hdrs.addRawHeader("X-Tahoe-Authorization", b"upload-secret !!!notbase64!!!")
            elif xauth == "wrong-length":
                xa("lease-renew-secret", b"short")
                xa("lease-cancel-secret", b"short")
            elif xauth == "duplicated":
                xa("upload-secret", other_secret)
                xa("upload-secret", own_upload_secret)
            elif xauth == "other-upload":
                if "/mutable/" not in path:
                    xa("upload-secret", other_secret)      # (a surplus secret would get the mutable request refused for that alone)
                if method == "POST" and "immutable" in path:
                    xa("lease-renew-secret", good_secret("renew", 1))
                    xa("lease-cancel-secret", good_secret("cancel", 1))
                if "/mutable/" in path:
                    xa("write-enabler", secret_of("we", 12345))
                    xa("lease-renew-secret", good_secret("renew", 2))
                    xa("lease-cancel-secret", good_secret("cancel", 2))
            elif xauth == "sibling-upload":
                # a second uploader with its own, perfectly valid upload of ANOTHER share number of the same storage index
                # presents its own secret against the victim's share
                sib_secret = secret_of("upload", 424242)
                if auth == "correct" and "/immutable/" in path:
                    h2 = Headers()
                    h2.addRawHeader("Authorization", good_auth)
                    for nm_, val_ in (("upload-secret", sib_secret), ("lease-renew-secret", good_secret("renew", 9)), ("lease-cancel-secret", good_secret("cancel", 9))):
                        h2.addRawHeader("X-Tahoe-Authorization", nm_.encode() + b" " + b64encode(val_))
                    h2.addRawHeader("Content-Type", "application/cbor")
                    h2.addRawHeader("Accept", "application/cbor")
                    rig.raw("POST", "/storage/v1/immutable/" + si_b2a(target_si).decode("ascii"), h2,
                            cbor2.dumps({"share-numbers": {sh + 5}, "allocated-size": 50}))
                    probe("sibling-upload-started")
                xa("upload-secret", sib_secret)
            elif xauth == "empty-value":
                hdrs.addRawHeader("X-Tahoe-Authorization", b"upload-secret ")
            elif xauth == "extra-secret":
                xa("upload-secret", own_upload_secret)
                xa("write-enabler", b"w" * 32)
            elif xauth == "correct":
                correct_secrets = True
                if method in ("PATCH",) or path.endswith("/abort"):
                    xa("upload-secret", own_upload_secret)
                elif method == "POST" and path.endswith("read-test-write"):
                    xa("write-enabler", good_secret("we", 7))
                    xa("lease-renew-secret", good_secret("renew", 2))
                    xa("lease-cancel-secret", good_secret("cancel", 2))
                elif method == "POST" and "/immutable/" in path and not path.endswith("corrupt"):
                    xa("upload-secret", own_upload_secret)
                    xa("lease-renew-secret", good_secret("renew", 1))
                    xa("lease-cancel-secret", good_secret("cancel", 1))
                elif method == "PUT" and "/lease/" in path:
                    xa("lease-renew-secret", good_secret("renew", 3))
                    xa("lease-cancel-secret", good_secret("cancel", 3))
            body = None
            if bodykind == "cbor-create":
                body = cbor2.dumps({"share-numbers": {0, 1}, "allocated-size": 50})
                hdrs.addRawHeader("Content-Type", "application/cbor")
            elif bodykind == "cbor-reason":
                body = cbor2.dumps({"reason": "attacker says so"})
                hdrs.addRawHeader("Content-Type", "application/cbor")
            elif bodykind == "cbor-rtw":
                # aim at the slot's existing share, at share numbers the slot does not hold yet, or at a mix
                targets = [[0], [0], [7], [2, 3], [0, 7], [1]][(x // 7) % 6]
                body = cbor2.dumps({"test-write-vectors": {t_: {"test": [], "write": [{"offset": 0, "data": b"EVIL" * 4}], "new-length": None} for t_ in targets},
                                    "read-vector": [{"offset": 0, "size": 64}]})
                hdrs.addRawHeader("Content-Type", "application/cbor")
            elif bodykind == "range":
                body = b"E" * 10
                hdrs.addRawHeader("Content-Range", "bytes 0-9/*")
            hdrs.addRawHeader("Accept", "application/cbor")
            before = tree_digest(rig.ss, rig.http)
            # in-progress uploads as the server holds them (whoever started them), with the secret each was started under
            rig_uploads_before = {si_: dict(v_.upload_secrets) for si_, v_ in rig.http._uploads._uploads.items()}
            code, rbody = rig.raw(method, path, hdrs, body)
            after = tree_digest(rig.ss, rig.http)
            probe("attack-%s-%s" % (auth, "correct-secrets" if correct_secrets else "bad-secrets"))
            if auth != "correct":
                # no correct swissnum: nothing may change, nothing may leak
                if after != before:
                    bad("state-changed-without-swissnum", "%s %s with Authorization=%s changed server state (response %r)" % (method, path, auth, code),
                        sig="C30.state-changed-without-swissnum")
                if code not in (401, 400):
                    bad("not-rejected-without-swissnum", "%s %s with Authorization=%s answered %r" % (method, path, auth, code),
                        sig="C30.not-rejected-without-swissnum.%s" % auth)
                if isinstance(rbody, bytes):
                    for pat in share_patterns:
                        if pat and pat in rbody:
                            bad("share-data-leaked", "%s %s with Authorization=%s returned share bytes" % (method, path, auth))
            elif not correct_secrets:
                required_some = method in ("PATCH", "POST", "PUT") and not path.endswith("corrupt")
                srv_ups = rig_uploads_before.get(target_si)
                live_secret = srv_ups.get(sh) if srv_ups else None
                if xauth == "sibling-upload" and live_secret is not None and live_secret != sib_secret and (method == "PATCH" or path.endswith("/abort")):
                    probe("attack-sibling-upload-secret-on-live-upload")
                    if after != before:
                        bad("foreign-secret-touched-upload", "%s %s with the secret of a sibling upload (another share of the same storage index) changed "
                            "an in-progress upload (response %r)" % (method, path, code))
                    if code not in (401, 400):
                        bad("foreign-secret-not-refused", "%s %s with the secret of a sibling upload answered %r" % (method, path, code))
                elif xauth == "other-upload" and live_secret is not None and live_secret != other_secret and (method == "PATCH" or path.endswith("/abort")):
                    probe("attack-other-upload-secret-on-live-upload")
                    if after != before:
                        bad("foreign-secret-touched-upload", "%s %s with another upload's secret changed an in-progress upload (response %r)" % (method, path, code))
                    if code not in (401, 400):
                        bad("foreign-secret-not-refused", "%s %s with another upload's secret answered %r" % (method, path, code))
                elif xauth == "other-upload" and "read-test-write" in path and target_si == mut_si:
                    probe("attack-wrong-write-enabler")
                    if after != before:
                        bad("wrong-enabler-wrote", "mutable read-test-write with a wrong write enabler changed the share (response %r)" % code)
                    if code not in (401, 400):
                        bad("wrong-enabler-not-refused", "mutable read-test-write with a wrong write enabler answered %r" % code)
                elif xauth in ("wrong-names", "bad-base64", "wrong-length", "empty-value", "extra-secret", "missing", "duplicated") and required_some:
                    # missing / malformed / surplus secrets on a route that requires secrets: rejected, no side effect
                    if xauth == "duplicated" and (method == "PATCH" or path.endswith("/abort")):
                        pass     # last value wins; it is the correct one
                    else:
                        if after != before:
                            bad("bad-secrets-changed-state", "%s %s with X-Tahoe-Authorization=%s changed server state (response %r)" % (method, path, xauth, code),
                                sig="C30.bad-secrets-changed-state." + xauth)
                        if code not in (400, 401, 404, 405, 416):
                            bad("bad-secrets-not-rejected", "%s %s with X-Tahoe-Authorization=%s answered %r" % (method, path, xauth, code),
                                sig="C30.bad-secrets-not-rejected." + xauth)
                elif xauth in ("wrong-names", "bad-base64", "wrong-length", "empty-value", "extra-secret") and not required_some:
                    # an endpoint that takes no secrets: a malformed or unexpected secret header is still a malformed request
                    probe("attack-bad-secrets-on-no-secret-endpoint")
                    if after != before:
                        bad("bad-secrets-changed-state", "%s %s (takes no secrets) with X-Tahoe-Authorization=%s changed server state (response %r)" % (method, path, xauth, code),
                            sig="C30.bad-secrets-changed-state.no-secret-endpoint")
                    if code not in (400, 401):
                        bad("bad-secrets-not-rejected", "%s %s (takes no secrets) with X-Tahoe-Authorization=%s answered %r" % (method, path, xauth, code),
                            sig="C30.bad-secrets-not-rejected.no-secret-endpoint." + xauth)
            if after != before:
                # the attacker (who knows swissnum and correct secrets in this branch) legitimately changed something: resync our view
                for key, u in list(uploads.items()):
                    ups = rig.http._uploads._uploads.get(si_of(key[0]))
                    if (ups is None or key[1] not in ups.shares) and u["written"] < u["size"]:
                        u["written"] = u["size"]     # aborted or completed by the attacker-with-credentials
        if viol:
            break
    fp = hashlib.sha256(repr(sorted(probes.items())).encode()).hexdigest()[:16]
    if R.errors:
        viol.append({"clause": "C30.unhandled-error", "sig": "C30.unhandled-error", "detail": R.errors[0][1][-1200:]})
    return {"violations": viol[:4], "digest": R.digest(), "fingerprint": fp, "nontrivial": len(probes) >= 3, "events": R.events,
            "sim_s": R.true_seconds() - EPOCH, "faults": {k_: v for k_, v in probes.items() if k_.startswith("attack")}, "probes": probes}


# ------------------------------------------------------------------------------------------
# C31
# ------------------------------------------------------------------------------------------
def gen_twin(seed, tier):
    ch = Chooser(seed)
    W = "workload"
    ops = []
    for i in range(ch.randint(W, "nops", 3, 30)):
        k = ch.weighted(W, ("k", i), [("create", 4), ("write", 10), ("plan", 2.5), ("read", 5), ("list", 2), ("abort", 1), ("lease", 1.5), ("rtw", 6), ("mread", 4), ("mlist", 1.5)])
        si_i = ch.randrange(W, ("si", i), 3)
        if k == "create":
            ops.append(["create", si_i, sorted(ch.sample(W, ("shs", i), range(3), ch.randint(W, ("n", i), 1, 3))), ch.pick(W, ("size", i), [1, 10, 100, 300]), ch.randrange(W, ("sec", i), 3)])
        elif k == "write":
            ops.append(["write", ch.randrange(W, ("w", i), 64), ch.randrange(W, ("off", i), 320), ch.pick(W, ("len", i), [1, 3, 10, 50, 100, 300]), ch.chance(W, ("honest", i), 0.85)])
        elif k == "plan":
            # the whole share in n chunks, sent in a drawn order (first-last-middle, reverse, ...)
            n_ = ch.randint(W, ("pn", i), 2, 5)
            ops.append(["plan", ch.randrange(W, ("w", i), 64), n_, ch.shuffle(W, ("porder", i), range(n_))])
        elif k == "read":
            ops.append(["read", si_i, ch.randrange(W, ("sh", i), 3), ch.pick(W, ("off", i), [0, 0, 1, 9, 10, 99, 100, 101, 400]), ch.pick(W, ("len", i), [1, 10, 100, 1000])])
        elif k == "list":
            ops.append(["list", si_i])
        elif k == "abort":
            ops.append(["abort", ch.randrange(W, ("w", i), 64)])
        elif k == "lease":
            ops.append(["lease", si_i, ch.randrange(W, ("sec", i), 4)])
        elif k == "rtw":
            tw = []
            for sh in sorted(ch.sample(W, ("msh", i), range(3), ch.randint(W, ("mn", i), 1, 2))):
                # third field: True = specimen equals the range, False = one byte too many, "short" = specimen shorter than
                # the tested range (publishers test (0, 1, b"") for "this share must not exist yet")
                tests = [[ch.pick(W, ("toff", i, sh), [0, 0, 5, 100]), ch.pick(W, ("tlen", i, sh), [0, 1, 4, 50]),
                          ch.pick(W, ("tmatch", i, sh), [True, True, True, True, False, "short", "short"])]] if ch.chance(W, ("hastest", i, sh), 0.55) else []
                writes = [[ch.pick(W, ("woff", i, sh, j), [0, 0, 3, 50, 100, 500]), ch.pick(W, ("wlen", i, sh, j), [1, 10, 100]), ch.randint(W, ("wpat", i, sh, j), 1, 1 << 30)]
                          for j in range(ch.pick(W, ("nw", i, sh), [0, 1, 1, 2]))]
                tw.append([sh, tests, writes, ch.pick(W, ("nl", i, sh), [None, None, None, 0, 20, 200])])
            ops.append(["rtw", 5 + si_i, ch.pick(W, ("we", i), [0, 0, 0, 1]), ch.randrange(W, ("sec", i), 3), tw,
                        [[ch.pick(W, ("roff", i, r), [0, 10, 1000]), ch.pick(W, ("rlen", i, r), [1, 50, 5000])] for r in range(ch.pick(W, ("nr", i), [0, 1, 2]))]])
        elif k == "mread":
            ops.append(["mread", 5 + si_i, ch.randrange(W, ("sh", i), 3), ch.pick(W, ("off", i), [0, 0, 7, 100, 700]), ch.pick(W, ("len", i), [1, 30, 1000])])
        else:
            ops.append(["mlist", 5 + si_i])
    return {"engine": "httpsim", "profile": "twin", "seed": seed, "cfg": {}, "ops": ops}


def exec_twin(case):
    from sim.runner import child_tmp
    base = tempfile.mkdtemp(dir=child_tmp())
    R.reset_sim()
    install_cooperator()
    A = Rig(base, "http")
    B = Rig(base, "direct")      # only B.ss is used
    viol, probes = [], {}

    def probe(nm, c=1):
        probes[nm] = probes.get(nm, 0) + c

    def bad(clause, detail, sig=None):
        viol.append({"clause": "C31." + clause, "sig": sig or "C31." + clause, "detail": detail})
    writers = []      # dict(si_i, sh, size, secret, bw (direct BucketWriter), pat, done)
    mutable_model = {}

    def live():
        return [w for w in writers if not w["done"]]

    def share_files(ss):
        out = {}
        for root, dirs, files in os.walk(ss.sharedir):
            for f in files:
                p = os.path.join(root, f)
                with open(p, "rb") as fh:
                    out[os.path.relpath(p, ss.sharedir)] = fh.read()
        return out

    expanded = []
    for op in case["ops"]:
        if op[0] == "plan":
            _, wi, n_, order = op
            for c_ in order:
                expanded.append(["write-chunk", wi, c_, n_])
        else:
            expanded.append(op)
    plan_writer = [None]
    for opi, op in enumerate(expanded):
        k = op[0]
        R.note(repr(op))
        next_second()
        t0 = R.true_seconds()
        if k == "write-chunk":
            # chunk c of n of one live upload (the same upload for the whole plan)
            lv = live()
            if plan_writer[0] is None or plan_writer[0]["done"] or plan_writer[0].get("plan") != (op[1], op[3]):
                if not lv:
                    continue
                plan_writer[0] = lv[op[1] % len(lv)]
                plan_writer[0]["plan"] = (op[1], op[3])
            pw = plan_writer[0]
            step = max(1, (pw["size"] + op[3] - 1) // op[3])
            off_ = op[2] * step
            if off_ >= pw["size"]:
                continue
            op = ["write", live().index(pw), off_, min(step, pw["size"] - off_), True]
            k = "write"
            probe("planned-chunk")
        try:
            if k == "create":
                _, si_i, shs, size, sec = op
                us = secret_of("upload", opi)
                st, r = A.drive(A.imm.create(si_of(si_i), set(shs), size, us, secret_of("renew", sec), secret_of("cancel", sec)))
                R._now = t0
                already, bws = B.ss.allocate_buckets(si_of(si_i), secret_of("renew", sec), secret_of("cancel", sec), set(shs), size)
                if st != "ok":
                    bad("create-failed", "HTTP create failed: %r" % (r,))
                    break
                if set(r.already_have) != set(already) or set(r.allocated) != set(bws):
                    bad("create-result", "create(%r): HTTP says already=%r allocated=%r, direct says already=%r allocated=%r" % (
                        shs, sorted(r.already_have), sorted(r.allocated), sorted(already), sorted(bws)))
                for sh in sorted(bws):
                    writers.append({"si_i": si_i, "sh": sh, "size": size, "secret": us, "bw": bws[sh], "pat": 5000 + opi * 10 + sh, "done": False})
                probe("create")
            elif k == "write":
                lv = live()
                if not lv:
                    continue
                w = lv[op[1] % len(lv)]
                off = op[2] % (w["size"] + 1)
                ln = min(op[3], w["size"] - off) if op[4] else op[3]
                if ln <= 0:
                    continue
                data = pat_bytes(w["pat"], ln, off) if op[4] else pat_bytes(w["pat"] + 1, ln, off)
                st, r = A.drive(A.imm.write_share_chunk(si_of(w["si_i"]), w["sh"], w["secret"], off, data))
                R._now = t0
                try:
                    w["bw"].write(off, data)
                    # completion is judged by the harness's own bookkeeping of the bytes written so far, not by a flag of
                    # the code under test: the upload is complete exactly when every byte of the share has been written
                    cov = w.setdefault("covered", set())
                    cov.update(range(off, off + len(data)))
                    fin = (len(cov) >= w["size"])
                    if fin:
                        w["bw"].close()
                    dres = ("ok", fin)
                except Exception as e:
                    dres = ("err", type(e).__name__)
                if st == "ok":
                    hres = ("ok", r.finished)
                else:
                    hres = ("err", r.value.code if isinstance(r.value, ClientException) else type(r.value).__name__)
                probe("write-" + hres[0])
                if dres[0] != hres[0] or (dres[0] == "ok" and dres[1] != hres[1]):
                    bad("write-result", "write(off=%d,len=%d) on a %d-byte share: HTTP %r, direct %r" % (off, ln, w["size"], hres, dres))
                if dres == ("ok", True):
                    w["done"] = True
                    probe("upload-complete")
                if st == "ok" and dres[0] == "ok" and not fin:
                    want = [(rg.start, rg.stop) for rg in w["bw"].required_ranges().ranges()]
                    got = [(rg.start, rg.stop) for rg in r.required.ranges()]
                    if want != got:
                        bad("required-ranges", "remaining ranges after write: HTTP %r, direct %r" % (got, want))
            elif k == "abort":
                lv = live()
                if not lv:
                    continue
                w = lv[op[1] % len(lv)]
                st, r = A.drive(A.imm.abort_upload(si_of(w["si_i"]), w["sh"], w["secret"]))
                R._now = t0
                w["bw"].abort()
                w["done"] = True
                if st != "ok":
                    bad("abort-failed", "HTTP abort failed: %r" % (r,))
                probe("abort")
            elif k == "read":
                _, si_i, sh, off, ln = op
                comp = sorted((w["si_i"], w["sh"]) for w in writers if w["done"] and w["sh"] in B.ss.get_buckets(si_of(w["si_i"])))
                if comp and (off + ln) % 5 != 0:
                    si_i, sh = comp[(si_i * 3 + sh + off) % len(comp)]      # mostly read shares that exist
                st, r = A.drive(A.imm.read_share_chunk(si_of(si_i), sh, off, ln))
                R._now = t0
                bs = B.ss.get_buckets(si_of(si_i))
                if sh in bs:
                    want = bs[sh].read(off, ln)
                    if st == "ok":
                        if r != want:
                            bad("read-bytes", "immutable read(%d,%d): HTTP returned %d bytes, direct %d bytes%s" % (off, ln, len(r), len(want), "" if len(r) != len(want) else " (contents differ)"))
                    else:
                        code = r.value.code if isinstance(r.value, ClientException) else None
                        if not (want == b"" and code == 416):
                            bad("read-failed", "immutable read(%d,%d) failed over HTTP (%r) but direct access returns %d bytes" % (off, ln, code, len(want)))
                    probe("read")
                else:
                    if st == "ok":
                        bad("read-missing-share", "HTTP read of a share that does not exist on the twin returned data")
                    probe("read-missing")
            elif k == "list":
                st, r = A.drive(A.imm.list_shares(si_of(op[1])))
                R._now = t0
                want = set(B.ss.get_buckets(si_of(op[1])))
                if st != "ok" or set(r) != want:
                    bad("list", "list_shares: HTTP %r, direct %r" % (sorted(r) if st == "ok" else r, sorted(want)))
                probe("list")
            elif k == "lease":
                _, si_i, sec = op
                comp = sorted(set(w["si_i"] for w in writers if w["done"])) + sorted(set(kx[0] for kx in mutable_model))
                if comp and sec != 3:
                    si_i = comp[(si_i + sec) % len(comp)]
                st, r = A.drive(A.gen.add_or_renew_lease(si_of(si_i), secret_of("renew", sec), secret_of("cancel", sec)))
                R._now = t0
                B.ss.add_lease(si_of(si_i), secret_of("renew", sec), secret_of("cancel", sec))
                probe("lease-" + st)
                has_shares = bool(list(B.ss.get_shares(si_of(si_i))))
                if st != "ok" and has_shares:
                    bad("lease-failed", "add_or_renew_lease failed over HTTP: %r" % (r,))
            elif k == "rtw":
                _, si_i, we, sec, tw, readv = op
                si = si_of(si_i)
                twv_http, twv_direct = {}, {}
                for (sh, tests, writes, nl) in tw:
                    cur = mutable_model.get((si_i, sh), b"")
                    tv_h, tv_d = [], []
                    for (toff, tlen, match) in tests:
                        if match == "short":
                            spec = cur[toff:toff + tlen][:tlen // 2]
                        else:
                            spec = cur[toff:toff + tlen] if match else cur[toff:toff + tlen] + b"!"
                        tv_h.append(TestVector(offset=toff, size=tlen, specimen=spec))
                        tv_d.append((toff, tlen, b"eq", spec))
                    wv_h = [WriteVector(offset=o, data=pat_bytes(p, l)) for (o, l, p) in writes]
                    wv_d = [(o, pat_bytes(p, l)) for (o, l, p) in writes]
                    twv_http[sh] = TestWriteVectors(test_vectors=tv_h, write_vectors=wv_h, new_length=nl)
                    twv_direct[sh] = (tv_d, wv_d, nl)
                st, r = A.drive(A.mut.read_test_write_chunks(si, secret_of("we", we), secret_of("renew", sec), secret_of("cancel", sec), twv_http,
                                                             [ReadVector(offset=o, size=l) for (o, l) in readv]))
                R._now = t0
                try:
                    ok, reads = B.ss.slot_testv_and_readv_and_writev(si, (secret_of("we", we), secret_of("renew", sec), secret_of("cancel", sec)),
                                                                     twv_direct, [(o, l) for (o, l) in readv])
                    dres = ("ok", ok, {kx: list(v) for kx, v in reads.items()})
                except BadWriteEnablerError:
                    dres = ("badenabler",)
                if st == "ok":
                    hres = ("ok", r.success, {kx: list(v) for kx, v in r.reads.items()})
                else:
                    code = r.value.code if isinstance(r.value, ClientException) else type(r.value).__name__
                    hres = ("badenabler",) if code == 401 else ("err", code)
                probe("rtw-" + hres[0])
                if hres != dres:
                    bad("rtw-result", "read-test-write: HTTP %r, direct %r" % (_brief(hres), _brief(dres)))
                # refresh the model of mutable contents from the twin (ground truth for building later test vectors)
                for sh in range(3):
                    got = B.ss.slot_readv(si, [sh], [(0, 100000)])
                    if sh in got:
                        mutable_model[(si_i, sh)] = got[sh][0]
                    else:
                        mutable_model.pop((si_i, sh), None)
            elif k == "mread":
                _, si_i, sh, off, ln = op
                st, r = A.drive(A.mut.read_share_chunk(si_of(si_i), sh, off, ln))
                R._now = t0
                got = B.ss.slot_readv(si_of(si_i), [sh], [(off, ln)])
                if sh in got:
                    want = got[sh][0]
                    if st == "ok":
                        if r != want:
                            bad("mread-bytes", "mutable read(%d,%d): HTTP %d bytes, direct %d bytes" % (off, ln, len(r), len(want)))
                    else:
                        code = r.value.code if isinstance(r.value, ClientException) else None
                        if not (want == b"" and code == 416):
                            bad("mread-failed", "mutable read(%d,%d) failed over HTTP (%r), direct returns %d bytes" % (off, ln, code, len(want)))
                    probe("mread")
                elif st == "ok":
                    bad("mread-missing-share", "HTTP read of a mutable share that does not exist on the twin returned data")
            elif k == "mlist":
                st, r = A.drive(A.mut.list_shares(si_of(op[1])))
                R._now = t0
                want = B.ss.enumerate_mutable_shares(si_of(op[1]))
                if st == "ok":
                    if set(r) != set(want):
                        bad("mlist", "mutable list_shares: HTTP %r, direct %r" % (sorted(r), sorted(want)))
                elif want:
                    bad("mlist-failed", "mutable list_shares failed over HTTP but the twin has shares %r" % sorted(want))
                probe("mlist")
        except Exception as e:
            import traceback
            bad("unexpected-exception", "op %d %r: %s" % (opi, op[:3], traceback.format_exc()[-1200:]), sig="C31.unexpected-exception." + type(e).__name__)
        fa, fb = share_files(A.ss), share_files(B.ss)
        if fa != fb and not viol:
            diff = sorted(kx for kx in set(fa) | set(fb) if fa.get(kx) != fb.get(kx))
            bad("state-diverged", "after op %d %r the twin share directories differ in %r (%s)" % (
                opi, op[:4], diff[:3], "only one side has it" if (diff[0] not in fa or diff[0] not in fb) else "lengths %d vs %d" % (len(fa[diff[0]]), len(fb[diff[0]]))))
        if viol:
            break
    fp = hashlib.sha256(repr(sorted(probes.items())).encode()).hexdigest()[:16]
    if R.errors:
        viol.append({"clause": "C31.unhandled-error", "sig": "C31.unhandled-error", "detail": R.errors[0][1][-1200:]})
    return {"violations": viol[:4], "digest": R.digest(), "fingerprint": fp, "nontrivial": len(probes) >= 3, "events": R.events,
            "sim_s": R.true_seconds() - EPOCH, "faults": {}, "probes": probes}


def _brief(x):
    s = repr(x)
    return s if len(s) < 400 else s[:400] + "..."
