"""websim — the web API never exceeds the authority of the capability used (DESIGN §4 C41).

The real web resource tree (allmydata.web.root.Root under a TahoeLAFSSite with TahoeLAFSRequest, the
OphandleTable, the private-area token wrapper) is driven in-process, request by request, on a simulated
grid: real client, real dirnodes/filenodes, real storage servers, SimNet.  No sockets: requests are
constructed the way twisted.web's HTTPChannel does and fed to Site/Request; responses are read from the
channel's transport.

Ground truth is on the servers' disks: the data region of every mutable share, per storage index,
before and after each request.
"""
import hashlib
import json
import os
import re
import struct
import tempfile
import time

from engines import gridsim
from engines.gridsim import R, Grid, run, EPOCH
from engines.storesim import pat_bytes
from sim.choice import Chooser
from sim.reactor import EventCap

from twisted.application import service
from twisted.web.test.requesthelper import DummyChannel

from allmydata.webish import WebishServer, TahoeLAFSSite, anonymous_tempfile_factory
from allmydata.immutable.upload import Data
from allmydata.mutable.publish import MutableData
from allmydata.interfaces import SDMF_VERSION, MDMF_VERSION
from allmydata.util import base32


class SimWebish(WebishServer):
    """The real WebishServer (Root, OphandleTable, storage-plugins child) without the listening port."""
    def buildServer(self, webport, make_tempfile, nodeurl_path, staticdir):
        self.webport = webport
        self.site = TahoeLAFSSite(make_tempfile, self.root)
        self.staticdir = staticdir

    def startService(self):
        service.MultiService.startService(self)


class SimChannel(DummyChannel):
    """DummyChannel plus the one thing a real TCP transport does that responses depend on: a pull producer
    (streaming=False, e.g. the FileSender behind LiteralFileNode.read) is asked for its next chunk whenever the
    write buffer has drained — here: on the next reactor turn, until it unregisters."""
    def __init__(self, peer=None):
        DummyChannel.__init__(self, peer)
        self._pull = None

    def registerProducer(self, producer, streaming):
        DummyChannel.registerProducer(self, producer, streaming)
        if not streaming:
            self._pull = producer
            R.callLater(0, self._pump)

    def unregisterProducer(self):
        self._pull = None
        DummyChannel.unregisterProducer(self)

    def _pump(self):
        p = self._pull
        if p is not None:
            p.resumeProducing()
            if self._pull is p:
                R.callLater(0, self._pump)


RW_CAP = re.compile(rb"URI:(?:DIR2|DIR2-MDMF|SSK|MDMF):[a-z2-7]+:[a-z2-7]+(?::[0-9]+:[0-9]+)?")
RO_CAP = re.compile(rb"URI:(?:DIR2-RO|DIR2-MDMF-RO|SSK-RO|MDMF-RO|CHK|DIR2-CHK|DIR2-LIT|LIT):[a-z2-7]+(?::[a-z2-7]+)?(?::[0-9]+:[0-9]+:[0-9]+)?")

MUTABLE_MAGIC = b"Tahoe mutable container v"      # schema version 1 or 2; same header layout
DATA_OFFSET = 32 + 20 + 32 + 8 + 8 + 4 * (4 + 4 + 32 + 32 + 20)

MODIFYING_POST = ("mkdir", "mkdir-with-children", "mkdir-immutable", "upload", "uri", "unlink", "delete", "rename", "relink", "set_children", "set-children")
READING_POST = ("check", "start-deep-check", "stream-deep-check", "start-manifest", "start-deep-size", "start-deep-stats", "stream-manifest")
GET_T = ("", "json", "info", "uri", "readonly-uri", "rename-form")


def gen_web(seed, tier, focus="C41"):
    ch = Chooser(seed)
    W = "workload"
    nops = ch.randint(W, "nops", 6, 14 if tier == "quick" else 30)
    ops = []
    for i in range(nops):
        kind = ch.weighted(W, ("kind", i), [("put-file", 3), ("put-uri", 2.5), ("put-mkdir", 1.5), ("delete", 2.5), ("post-mod", 6), ("post-read", 2), ("get", 4),
                                            ("put-mutable-offset", 1.2), ("post-file-upload", 1.2), ("private", 0.6)])
        op = {"kind": kind,
              "start": ch.randrange(W, ("start", i), 64),            # which node the URL cap names
              "flavour": ch.weighted(W, ("flav", i), [("ro", 5), ("rw", 4), ("verify", 1.5)]),
              "path": [ch.randrange(W, ("p", i, j), 64) for j in range(ch.weighted(W, ("plen", i), [(0, 3), (1, 4), (2, 2.5), (3, 1)]))],
              "newname": ch.chance(W, ("new", i), 0.35),
              "x": ch.randrange(W, ("x", i), 1 << 30)}
        if kind == "post-mod":
            op["t"] = ch.pick(W, ("t", i), MODIFYING_POST + ("uri", "uri", "set_children", "set_children", "set-children"))
            op["bodycap"] = ch.weighted(W, ("bc", i), [("ro", 4), ("rw", 2), ("imm", 2)])
            op["replace"] = ch.pick(W, ("rep", i), ["true", "true", "false", "only-files"])
            op["fmt"] = ch.pick(W, ("fmt", i), [None, None, "sdmf", "mdmf", "chk"])
        elif kind == "post-read":
            op["t"] = ch.pick(W, ("t", i), READING_POST)
            op["repair"] = ch.chance(W, ("repair", i), 0.4)
            op["addlease"] = ch.chance(W, ("lease", i), 0.3)
            op["verify"] = ch.chance(W, ("verify", i), 0.3)
        elif kind == "get":
            op["t"] = ch.pick(W, ("t", i), GET_T)
        elif kind in ("put-file", "post-file-upload"):
            op["fmt"] = ch.pick(W, ("fmt", i), [None, None, "sdmf", "mdmf", "chk"])
            op["size"] = ch.pick(W, ("size", i), [0, 10, 56, 300, 2000])
            op["replace"] = ch.pick(W, ("rep", i), ["true", "true", "false"])
        elif kind == "put-uri":
            op["bodycap"] = ch.weighted(W, ("bc", i), [("ro", 4), ("rw", 2), ("imm", 2)])
            op["replace"] = ch.pick(W, ("rep", i), ["true", "true", "false"])
        elif kind == "put-mutable-offset":
            op["offset"] = ch.pick(W, ("off", i), [0, 1, 50, 5000])
            op["size"] = ch.pick(W, ("size", i), [1, 30, 700])
        elif kind == "private":
            op["token"] = ch.pick(W, ("tok", i), ["none", "wrong", "wrong-scheme", "right", "prefix", "empty"])
        op["concurrent"] = ch.chance(W, ("conc", i), 0.12)
        ops.append(op)
    blacklist = (ch.pick("config", "blacklisted", [["mut.txt"], ["sub/m.txt"], ["deep"], ["mut.txt", "deep"], ["locked/lm.txt"]])
                 if ch.chance("config", "blacklist", 0.25) else [])
    for j, bname in enumerate(blacklist):
        # the operator re-links (renames, moves) an object while it is blacklisted: link it by its write cap into a directory
        # through the gateway, then look at that directory through its read-only cap
        for rep in range(ch.randint(W, ("relink-n", j), 1, 2)):
            rk_ = ch.pick(W, ("relink-kind", j, rep), ["post-mod", "post-mod", "put-uri"])
            ops.insert(ch.randint(W, ("relink-at", j, rep), 0, len(ops)),
                       {"kind": rk_, "t": "uri", "bodycap": "rw", "other_name": bname, "flavour": "rw",
                        "start": ch.pick(W, ("relink-dir", j, rep), [0, 5, 6]), "path": ([ch.randrange(W, ("relink-p", j, rep), 50)] if rk_ == "put-uri" else []), "newname": True,
                        "replace": "true", "fmt": None, "x": ch.randrange(W, ("relink-x", j, rep), 1 << 30), "concurrent": False})
    return {"engine": "websim", "seed": seed, "focus": focus,
            "cfg": {"nservers": ch.randint("config", "nservers", 2, 4), "k": 1, "n": 2,
                    "net": {"threads": ch.pick("config", "threads", ["sync", "sync", "async"]), "batch": ch.pick("config", "batch", [0, 0, 0, 0.001, 0.02, 0.3]), "lat_profile": ch.pick("config", "lat", ["uniform", "heavy", "fifo"]), "jitter": 0.02},
                    "dirfmt": ch.pick("config", "dirfmt", ["sdmf", "sdmf", "mdmf"]),
                    # the gateway's access blacklist (private/access.blacklist) names some of the mutable objects: it answers 403
                    # for them and wraps them (ProhibitedNode) wherever it builds a node for them, also when they are re-linked
                    "blacklist": blacklist},
            "ops": ops, "faults": []}


def exec_web(case):
    from sim.runner import child_tmp
    cfg = case["cfg"]
    base = tempfile.mkdtemp(dir=child_tmp())
    R.reset_sim()
    viol, probes = [], {}

    def probe(nm, c=1):
        probes[nm] = probes.get(nm, 0) + c

    def bad(clause, detail, sig=None):
        viol.append({"clause": "C41." + clause, "sig": sig or "C41." + clause, "detail": detail})

    g = Grid(case["seed"], base, cfg["net"])
    try:
        for i in range(cfg["nservers"]):
            g.add_server()
        c = g.add_client(k=cfg["k"], happy=1, n=cfg["n"], extra_cfg="[node]\n" if False else "")
        with open(os.path.join(c.sim_dir, "private", "api_auth_token"), "w") as f:
            f.write("sekrit-token-%d" % (case["seed"] % 1000))
        ws = SimWebish(c, "tcp:0", anonymous_tempfile_factory(base.encode()), now_fn=time.time)
        ws.setServiceParent(c)
        site = ws.site

        def http(method, uri, body=b"", headers=None):
            """-> request object, Deferred-ish box filled when the response is finished"""
            chan = SimChannel()
            chan.site = site
            req = site.requestFactory(chan, False)
            for k_, v in (headers or {}).items():
                req.requestHeaders.setRawHeaders(k_, [v])
            req.gotLength(len(body))
            req.handleContentChunk(body)
            box = []
            req.notifyFinish().addBoth(box.append)
            try:
                req.requestReceived(method, uri, b"HTTP/1.0")
            except Exception as e:                       # what HTTPChannel would turn into a dropped connection
                box.append(e)
                req.sim_exception = e
            return req, chan, box

        def response_of(req, chan):
            raw = chan.transport.written.getvalue()
            head, _, body = raw.partition(b"\r\n\r\n")
            return req.code, head, body

        # ------------------------------------------------------------------- the tree (built through the node API)
        nodes = []          # {"id", "kind", "rw", "ro", "verify", "mutable"}

        def reg(node, kind, name):
            u = node.get_uri()
            ro = node.get_readonly_uri()
            v = node.get_verify_cap()
            rec = {"id": len(nodes), "name": name, "kind": kind, "rw": u if (node.is_mutable() and not node.is_readonly()) else None, "ro": ro,
                   "verify": v.to_string() if v is not None else None, "mutable": node.is_mutable(),
                   "si": node.get_storage_index()}
            nodes.append(rec)
            return rec

        def must(d):
            st, res = run(d)
            if st != "ok":
                raise RuntimeError("harness setup failed: %s %s" % (st, res))
            return res
        dirver = MDMF_VERSION if cfg["dirfmt"] == "mdmf" else SDMF_VERSION
        root = must(c.create_dirnode(version=dirver))
        r_root = reg(root, "dir", "root")
        imm = must(root.add_file(u"imm.txt", Data(pat_bytes(1, 300), convergence=b"x")))
        reg(imm, "file", "imm.txt")
        lit = must(root.add_file(u"lit.txt", Data(b"tiny", convergence=b"x")))
        reg(lit, "file", "lit.txt")
        mut = must(c.create_mutable_file(MutableData(pat_bytes(2, 400)), version=SDMF_VERSION))
        must(root.set_node(u"mut.txt", mut))
        r_mut = reg(mut, "file", "mut.txt")
        mdmf = must(c.create_mutable_file(MutableData(pat_bytes(3, 900)), version=MDMF_VERSION))
        must(root.set_node(u"mdmf.txt", mdmf))
        reg(mdmf, "file", "mdmf.txt")
        sub = must(root.create_subdirectory(u"sub"))
        r_sub = reg(sub, "dir", "sub")
        must(sub.add_file(u"a.txt", Data(pat_bytes(4, 120), convergence=b"x")))
        deep = must(sub.create_subdirectory(u"deep"))
        reg(deep, "dir", "deep")
        submut = must(c.create_mutable_file(MutableData(pat_bytes(5, 200)), version=SDMF_VERSION))
        must(sub.set_node(u"m.txt", submut))
        reg(submut, "file", "sub/m.txt")
        # a directory that root links read-only; inside it, children stored with their write caps
        locked = must(c.create_dirnode())
        r_locked = reg(locked, "dir", "locked")
        inner = must(locked.create_subdirectory(u"inner"))
        reg(inner, "dir", "locked/inner")
        must(inner.add_file(u"i.txt", Data(pat_bytes(6, 150), convergence=b"x")))
        lmut = must(c.create_mutable_file(MutableData(pat_bytes(7, 250)), version=SDMF_VERSION))
        must(locked.set_node(u"lm.txt", lmut))
        reg(lmut, "file", "locked/lm.txt")
        must(root.set_uri(u"locked", None, locked.get_readonly_uri()))
        must(root.set_uri(u"mut-ro.txt", None, mut.get_readonly_uri()))
        immdir = must(c.create_immutable_dirnode({u"f": (c.create_node_from_uri(imm.get_uri()), {})}))
        must(root.set_node(u"immdir", immdir))
        reg(immdir, "dir", "immdir")

        if cfg.get("blacklist"):
            from allmydata.util import base32 as b32_
            with open(c.blacklist.blacklist_fn, "wb") as f_:
                for n_ in nodes:
                    if n_["name"] in cfg["blacklist"] and n_["si"]:
                        f_.write(b32_.b2a(n_["si"]) + b" prohibited for this run\n")
            c.blacklist.last_mtime = None
            probe("gateway-blacklist-entries", len(cfg["blacklist"]))
        # the harness's own look at the grid goes through a second client (no web server, no blacklist)
        oc = g.add_client(k=cfg["k"], happy=1, n=cfg["n"])
        by_si = {n["si"]: n for n in nodes if n["si"]}
        all_rw = {n["rw"]: n for n in nodes if n["rw"]}
        all_ro = {n["ro"]: n for n in nodes if n["ro"] and n["mutable"]}

        # ------------------------------------------------------------------- ground truth on disk
        def disk_state():
            """SI -> digest over the data regions of all its mutable shares"""
            out = {}
            for s in g.servers:
                for dirpath, dirs, files in os.walk(s.ss.sharedir):
                    dirs.sort()
                    for fn in sorted(files):
                        p = os.path.join(dirpath, fn)
                        with open(p, "rb") as f:
                            raw = f.read()
                        if not raw.startswith(MUTABLE_MAGIC):
                            continue
                        (dlen,) = struct.unpack(">Q", raw[84:92])
                        si_s = os.path.basename(dirpath)
                        h = out.setdefault(si_s, hashlib.sha256())
                        h.update(("%s/%s:" % (s.name, fn)).encode() + hashlib.sha256(raw[DATA_OFFSET:DATA_OFFSET + dlen]).digest())
            return {k_: v.hexdigest() for k_, v in out.items()}

        def rw_closure(start_ids):
            """nodes whose write cap is obtainable from the write caps of start_ids (by listing, as the holder of those caps could)"""
            seen, todo = set(), list(start_ids)
            while todo:
                i = todo.pop()
                if i in seen:
                    continue
                seen.add(i)
                n = nodes[i]
                if n["kind"] != "dir" or not n["rw"]:
                    continue
                st, kids = run(oc.create_node_from_uri(n["rw"]).list())
                if st != "ok":
                    continue
                for nm, (child, md) in kids.items():
                    cu = child.get_uri()
                    if cu in all_rw and not child.is_readonly():
                        todo.append(all_rw[cu]["id"])
            return seen

        def listing(n):
            cap = n["rw"] or n["ro"]
            st, kids = run(oc.create_node_from_uri(cap).list())
            return sorted(kids) if st == "ok" else []

        # ------------------------------------------------------------------- requests
        def build(op):
            """-> (method, uri, body, headers, facts)"""
            dirs = [n for n in nodes if n["kind"] == "dir"]
            kind = op["kind"]
            if kind == "private":
                tok = {"none": None, "wrong": b"tahoe-lafs wrong-token", "wrong-scheme": b"Basic c2Vrcml0", "empty": b"tahoe-lafs ",
                       "right": b"tahoe-lafs " + c.get_auth_token(), "prefix": b"tahoe-lafs " + c.get_auth_token()[:-1]}[op["token"]]
                return b"GET", b"/private/logs/v1", b"", ({"authorization": tok} if tok is not None else {}), {"private": op["token"]}
            if kind in ("put-mutable-offset", "post-file-upload"):
                cands = [n for n in nodes if n["kind"] == "file" and n["mutable"]]
                start = cands[op["start"] % len(cands)]
                path = []
            else:
                start = dirs[op["start"] % len(dirs)]
                path = op["path"]
            flav = op["flavour"]
            if flav == "rw" and not start["rw"]:
                flav = "ro"
            if flav == "verify" and not start["verify"]:
                flav = "ro"
            cap = start[flav]
            # walk the path through what the model knows, to choose names that exist
            segs, cur = [], start
            trail = [start]
            link_expect = []        # (parent record, child name, write cap the request gives for that link or None)
            for j, pick in enumerate(path):
                names = listing(cur) if cur is not None and cur["kind"] == "dir" else []
                last = (j == len(path) - 1)
                if names and not (last and op["newname"]):
                    nm = names[pick % len(names)]
                else:
                    nm = u"new-%d" % (pick % 5)
                segs.append(nm)
                nxt = None
                if cur is not None and cur["kind"] == "dir" and nm in names:
                    st, ch_ = run(oc.create_node_from_uri(cur["rw"] or cur["ro"]).get(nm))
                    if st == "ok":
                        for n in nodes:
                            if n["ro"] == ch_.get_readonly_uri():
                                nxt = n
                cur = nxt
                trail.append(cur)
            uri = b"/uri/" + cap + b"".join(b"/" + s.encode("utf-8") for s in segs)
            q = []
            body, headers = b"", {}
            method = b"GET"
            other = nodes[op["x"] % len(nodes)]
            if op.get("other_name"):
                other = next((n_ for n_ in nodes if n_["name"] == op["other_name"]), other)
            bodycap = {"ro": other["ro"], "rw": other["rw"] or other["ro"], "imm": nodes[1]["ro"]}.get(op.get("bodycap", "ro"))
            if kind == "put-file":
                method = b"PUT"
                body = pat_bytes(op["x"], op["size"])
                if op["fmt"]:
                    q.append("format=" + op["fmt"])
                q.append("replace=" + op["replace"])
            elif kind == "put-uri":
                method = b"PUT"
                q += ["t=uri", "replace=" + op["replace"]]
                if segs and cur is not None and cur.get("rw") and op["x"] % 3 == 1:
                    bodycap = cur["ro"]          # diminish an existing link: re-link the same object by its read-only cap
                body = bodycap
                if segs and len(trail) >= 2 and trail[-2] is not None and trail[-2]["kind"] == "dir":
                    link_expect.append((trail[-2], segs[-1], (bodycap if bodycap.startswith((b"URI:SSK:", b"URI:DIR2:", b"URI:MDMF:", b"URI:DIR2-MDMF:")) else None)))
            elif kind == "put-mkdir":
                method = b"PUT"
                q.append("t=mkdir")
            elif kind == "delete":
                method = b"DELETE"
            elif kind == "get":
                if op["t"]:
                    q.append("t=" + op["t"])
            elif kind == "post-read":
                method = b"POST"
                q.append("t=" + op["t"])
                if op["repair"]:
                    q.append("repair=true")
                if op["addlease"]:
                    q.append("add-lease=true")
                if op["verify"]:
                    q.append("verify=true")
                if op["t"].startswith("start-"):
                    q.append("ophandle=op%d" % op["x"])
            elif kind == "post-mod":
                method = b"POST"
                t = op["t"]
                q += ["t=" + t, "replace=" + op["replace"]]
                names = listing(cur) if cur is not None and cur["kind"] == "dir" else []
                exist = names[op["x"] % len(names)] if names else u"nothing"
                fresh = u"made-%d" % (op["x"] % 7)
                if t == "mkdir":
                    q.append("name=" + (fresh if op["newname"] else exist))
                    if op["fmt"] in ("sdmf", "mdmf"):
                        q.append("format=" + op["fmt"])
                elif t in ("mkdir-with-children", "mkdir-immutable"):
                    q.append("name=" + fresh)
                    kidcap = nodes[1]["ro"] if t == "mkdir-immutable" else bodycap
                    body = json.dumps({"kid": ["filenode", {"ro_uri": kidcap.decode("ascii")} if not kidcap.startswith((b"URI:SSK:", b"URI:DIR2:", b"URI:MDMF:"))
                                               else {"rw_uri": kidcap.decode("ascii")}]}).encode()
                elif t == "upload":
                    bnd = b"----simboundary"
                    fname = (fresh if op["newname"] else exist).encode("utf-8")
                    parts = [b"--" + bnd, b'Content-Disposition: form-data; name="file"; filename="' + fname + b'"', b"Content-Type: application/octet-stream", b"",
                             pat_bytes(op["x"], 90)]
                    if op["fmt"]:
                        parts += [b"--" + bnd, b'Content-Disposition: form-data; name="format"', b"", op["fmt"].encode()]
                    parts += [b"--" + bnd + b"--", b""]
                    body = b"\r\n".join(parts)
                    headers["content-type"] = b"multipart/form-data; boundary=" + bnd
                elif t == "uri":
                    if not op["newname"] and cur is not None and cur["kind"] == "dir" and exist in names and op["x"] % 3 == 1:
                        stx, chx = run(oc.create_node_from_uri(cur["rw"] or cur["ro"]).get(exist))
                        if stx == "ok" and chx.get_write_uri() is not None and chx.get_readonly_uri() is not None:
                            bodycap = chx.get_readonly_uri()      # diminish an existing link
                    q += ["name=" + (fresh if op["newname"] else exist), "uri=" + bodycap.decode("ascii")]
                    if cur is not None and cur["kind"] == "dir":
                        link_expect.append((cur, (fresh if op["newname"] else exist), (bodycap if bodycap.startswith((b"URI:SSK:", b"URI:DIR2:", b"URI:MDMF:", b"URI:DIR2-MDMF:")) else None)))
                elif t in ("unlink", "delete"):
                    q.append("name=" + exist)
                elif t == "rename":
                    q += ["from_name=" + exist, "to_name=" + fresh]
                elif t == "relink":
                    tgt = dirs[op["x"] % len(dirs)]
                    q += ["from_name=" + exist, "to_name=" + fresh, "to_dir=" + (tgt["rw"] or tgt["ro"]).decode("ascii")]
                else:
                    kidcap = bodycap
                    key = "rw_uri" if kidcap.startswith((b"URI:SSK:", b"URI:DIR2:", b"URI:MDMF:", b"URI:DIR2-MDMF:")) else "ro_uri"
                    kids = {(fresh if op["newname"] else exist): ["filenode", {key: kidcap.decode("ascii")}]}
                    if cur is not None and cur["kind"] == "dir":
                        link_expect.append((cur, (fresh if op["newname"] else exist), kidcap if key == "rw_uri" else None))
                    if op["x"] % 3 == 0:
                        # a second child given by its read-only cap only, after a child given by a write cap (what re-posting
                        # a t=json listing of a mixed-authority directory looks like)
                        second = nodes[(op["x"] // 3) % len(nodes)]
                        kids[u"second-%d" % (op["x"] % 4)] = [("dirnode" if second["kind"] == "dir" else "filenode"), {"ro_uri": second["ro"].decode("ascii")}]
                        if cur is not None and cur["kind"] == "dir":
                            link_expect.append((cur, u"second-%d" % (op["x"] % 4), None))
                    body = json.dumps(kids).encode()
            elif kind == "put-mutable-offset":
                method = b"PUT"
                q.append("offset=%d" % op["offset"])
                body = pat_bytes(op["x"], op["size"])
            elif kind == "post-file-upload":
                method = b"POST"
                q.append("t=upload")
                bnd = b"----simboundary"
                body = b"\r\n".join([b"--" + bnd, b'Content-Disposition: form-data; name="file"; filename="x"', b"Content-Type: application/octet-stream", b"",
                                     pat_bytes(op["x"], op["size"]), b"--" + bnd + b"--", b""])
                headers["content-type"] = b"multipart/form-data; boundary=" + bnd
            if q:
                from urllib.parse import quote
                uri += b"?" + "&".join(k_ + "=" + quote(v, safe=":") for k_, _, v in (x.partition("=") for x in q)).encode("utf-8")
            return method, uri, body, headers, {"flavour": flav, "start": start["id"], "segs": segs, "link_expect": link_expect}

        def would_modify(op):
            k = op["kind"]
            return k in ("put-file", "put-uri", "delete", "post-mod", "put-mutable-offset", "post-file-upload")

        def judge(op, built, before, req, chan, box, auth, overlapped=False):
            method, uri, body, headers, facts = built
            where = "%s %s" % (method.decode(), uri.decode("utf-8", "replace")[:160])
            if not box and facts.get("private") == "right":
                probe("private-area-entered")      # the log resource is a WebSocket endpoint: with the right token it takes the connection over
                if req.code == 401:
                    bad("private-area-refused-right-token", "GET /private/logs/v1 with the right token answered 401")
                return
            if not box and "private" in facts:
                # only the right token may get past the guard (the log resource then takes the connection over and never "finishes")
                bad("private-area-open", "GET /private/logs/v1 with token kind %r was not answered 401: the request was handed to the protected resource" % (facts["private"],))
                return
            if not box:
                if would_modify(op) and not auth:
                    # "is refused": a modifying request without the authority for it must get its refusal
                    bad("request-hung", "%s: the response never finished (quiescent)" % where)
                else:
                    # outside C41's statement (counted; see DESIGN 6, observations)
                    probe("response-never-finished-" + op["kind"])
                return
            if isinstance(box[0], Exception):
                probe("request-raised-" + type(box[0]).__name__)
            code, head, rbody = response_of(req, chan)
            probe("status-%s" % code)
            if "private" in facts:
                ok_tok = facts["private"] == "right"
                if not ok_tok and code != 401:
                    bad("private-area-open", "GET /private/logs/v1 with token kind %r answered %r (expected 401)" % (facts["private"], code))
                if ok_tok and code == 401:
                    bad("private-area-refused-right-token", "GET /private/logs/v1 with the right token answered 401")
                return
            # whose write authority does the request carry?  (URL cap and any write cap in the query or body; closure taken before the request ran)
            presented, authorized = auth
            after = disk_state()
            changed = [si_s for si_s in before if after.get(si_s) != before[si_s]]
            for si_s in changed:
                n = by_si.get(base32.a2b(si_s.encode("ascii")))
                if n is None:
                    continue      # an object created since the tree was built: nobody's authority is exceeded by changing what one created
                if n["id"] not in authorized:
                    bad("modified-without-authority",
                        "%s (URL cap: %s cap of %s; write caps presented: %r) changed the shares of %s %r, whose write cap is not obtainable from anything the request presented; status %s" % (
                            where, facts["flavour"], nodes[facts["start"]]["name"], sorted(nodes[i]["name"] for i in presented), n["kind"], n["name"], code),
                        sig="C41.modified-without-authority.%s.%s" % (op["kind"], op.get("t", "")))
                else:
                    probe("authorized-change")
            # "made through a read-only or verify capability ... is refused and changes nothing on the grid": the capability
            # the request is made *through* is the one in the URL path; a write cap mentioned in the query or body (to_dir=,
            # uri=) does not turn it into a request made through a write cap
            url_path = uri.split(b"?", 1)[0]
            url_rw = [m for m in RW_CAP.findall(url_path) if m in all_rw]
            if would_modify(op) and not url_rw and not overlapped:
                probe("modifying-request-through-readonly-url")
                known_changed = [si_s for si_s in changed if by_si.get(base32.a2b(si_s.encode("ascii"))) is not None]
                if known_changed:
                    bad("readonly-request-changed-grid",
                        "%s is made through a %s cap, would modify, and (status %s) changed the shares of %r" % (
                            where, facts["flavour"], code, sorted(by_si[base32.a2b(x_.encode("ascii"))]["name"] for x_ in known_changed)),
                        sig="C41.readonly-request-changed-grid.%s.%s" % (op["kind"], op.get("t", "")))
            if not presented and would_modify(op):
                probe("modifying-request-without-write-cap")
                if code is not None and code < 400 and changed == [] and not overlapped and op["kind"] in ("put-file", "delete", "put-mutable-offset", "post-file-upload"):
                    # 2xx although nothing could be changed
                    bad("not-refused", "%s carries no write cap, would modify a file or directory, and was answered %s instead of being refused" % (where, code),
                        sig="C41.not-refused.%s" % op["kind"])
            if code is not None and 200 <= code < 300 and not overlapped:
                for (prec, lname, given_rw) in facts.get("link_expect", []):
                    stl, got_ = run(oc.create_node_from_uri(prec["rw"] or prec["ro"]).get_child_and_metadata(lname), 400_000)
                    if stl != "ok":
                        continue
                    stored_rw = got_[0].get_write_uri()
                    probe("link-authority-checked")
                    # and what a holder of the parent's read-only cap is shown afterwards: by another gateway (one without this
                    # gateway's blacklist; its t=json listing renders rw_uri from exactly this value) ...
                    if prec["ro"] and prec["mutable"]:
                        stl3, got3 = run(oc.create_node_from_uri(prec["ro"]).get_child_and_metadata(lname), 400_000)
                        if stl3 == "ok":
                            probe("child-through-ro-cap-after-link")
                            if got3[0].get_write_uri() is not None:
                                bad("write-cap-leaked", "after %s (status %s) linked child %r into directory %s, that child obtained through the directory's "
                                    "read-only cap carries a write cap (a t=json listing through the read-only cap shows it as rw_uri)" % (where, code, lname, prec["name"]),
                                    sig="C41.write-cap-leaked.child-through-ro-after-link")
                    # ... and by this gateway
                    if prec["ro"] and prec["mutable"]:
                        req2, chan2, box2 = http(b"GET", b"/uri/" + prec["ro"] + b"?t=json")
                        try:
                            R.run_until(lambda: bool(box2), 300000)
                        except EventCap:
                            pass
                        if box2:
                            _c2, head2, body2 = response_of(req2, chan2)
                            shown = sorted(all_rw[m_]["name"] if m_ in all_rw else "an object" for m_ in set(RW_CAP.findall(body2)))
                            probe("listing-through-ro-cap-after-link")
                            if shown:
                                bad("write-cap-leaked", "after %s (status %s) linked child %r into directory %s, GET ?t=json through that directory's read-only cap "
                                    "shows the write cap of %r" % (where, code, lname, prec["name"], shown),
                                    sig="C41.write-cap-leaked.listing-after-link")
                    if stored_rw is not None and stored_rw != given_rw:
                        bad("link-exceeds-given-cap",
                            "%s (status %s) set child %r of directory %s from %s, but the stored link carries the write cap of %s" % (
                                where, code, lname, prec["name"], "a read-only cap" if given_rw is None else "another write cap",
                                all_rw[stored_rw]["name"] if stored_rw in all_rw else "an object"),
                            sig="C41.link-exceeds-given-cap.%s.%s" % (op["kind"], op.get("t", "")))
            # leakage: write caps of existing nodes in the response that the presented caps do not give
            leaked = set()
            for m in RW_CAP.findall(head + b"\n" + rbody):
                if m in all_rw and all_rw[m]["id"] not in authorized:
                    leaked.add(all_rw[m]["name"])
            if leaked:
                bad("write-cap-leaked", "%s (presented write caps: %r) — the response contains the write cap of %r" % (
                    where, sorted(nodes[i]["name"] for i in presented), sorted(leaked)),
                    sig="C41.write-cap-leaked.%s.%s" % (op["kind"], op.get("t", "")))
            if facts["flavour"] == "verify" and not presented:
                rd = set()
                for m in RO_CAP.findall(head + b"\n" + rbody):
                    if m in all_ro:
                        rd.add(all_ro[m]["name"])
                if rd:
                    # C41 speaks of write caps only, and requests may themselves carry read caps (uri=, body) that are echoed: counted, not judged
                    probe("read-cap-in-response-to-verify-cap-request")
            if not presented:
                probe("no-authority-request")
            if presented and code is not None and code < 400:
                probe("authorized-success")

        # the ground truth must see every mutable object of the tree, or the before/after comparison is blind
        gt0 = disk_state()
        missing = [n["name"] for n in nodes if n["mutable"] and base32.b2a(n["si"]).decode("ascii") not in gt0]
        if missing:
            raise RuntimeError("harness: ground truth does not see the shares of %r" % (missing,))
        opi = 0
        ops = case["ops"]
        while opi < len(ops):
            batch = [ops[opi]]
            if ops[opi].get("concurrent") and opi + 1 < len(ops):
                batch.append(ops[opi + 1])       # issued while the first is in flight
                probe("overlapped")
            R.note("op %d %s" % (opi, "+".join(o["kind"] for o in batch)))
            before = disk_state()
            flights = []
            builts = [build(op) for op in batch]
            presented = set()
            for b_ in builts:
                for m in RW_CAP.findall(b_[1] + b" " + b_[2]):
                    if m in all_rw:
                        presented.add(all_rw[m]["id"])
            auth = (presented, rw_closure(presented))
            for j, (op, built) in enumerate(zip(batch, builts)):
                req, chan, box = http(built[0], built[1], built[2], built[3])
                flights.append((op, built, req, chan, box))
                if j == 0 and len(batch) > 1:
                    R.run_until(lambda: bool(box), 400000, until_time=R.true_seconds() + 0.002 * (1 + op["x"] % 20))
            try:
                R.run_until(lambda: all(bool(f[4]) or f[1][4].get("private") == "right" for f in flights), 600000)
            except EventCap:
                bad("livelock", "event cap reached in %s %s" % (flights[0][1][0], flights[0][1][1][:100]))
                break
            for (op, built, req, chan, box) in flights:
                judge(op, built, before, req, chan, box, auth, overlapped=len(flights) > 1)
            opi += len(batch)
            if viol:
                break
        # the tree the harness built is still what its write caps say (sanity of the ground truth itself)
        fp = hashlib.sha256(repr(sorted(probes.items())).encode()).hexdigest()[:16]
        if R.errors:
            viol.append({"clause": "C41.unhandled-error", "sig": "C41.unhandled-error." + R.errors[0][1].strip().splitlines()[-1].split(":")[0],
                         "detail": "exception escaped into the reactor:\n" + R.errors[0][1][-1500:]})
        for nm in R.logged_errors:
            probes["logged-error-" + nm] = probes.get("logged-error-" + nm, 0) + 1
        return {"violations": viol[:4], "digest": R.digest(), "fingerprint": fp, "nontrivial": probes.get("no-authority-request", 0) > 0,
                "events": R.events, "sim_s": R.true_seconds() - EPOCH, "faults": dict(g.net.fired), "probes": probes}
    finally:
        g.close()
