"""crashsim — storesim workloads under crashfs: every kernel-visible mutation inside every
operation of a workload is a crash point; kill there, restart the server on the surviving
directory, check C29's invariants (DESIGN §4 C29)."""
import hashlib
import os
import tempfile

from engines import storesim
from engines.storesim import Store, R, si_of, secret_of, pat_bytes, EPOCH
from sim import crashfs
from sim.choice import Chooser

from allmydata.storage import server as ss_mod, immutable as imm_mod, mutable as mut_mod, crawler as cr_mod, expirer as ex_mod
from allmydata.storage.immutable import ShareFile
from allmydata.storage.mutable import MutableShareFile
from allmydata.util import fileutil

import twisted.python.filepath as _fp_mod   # FilePath.open()/remove() write the crawler state files
MODS = [ss_mod, imm_mod, mut_mod, cr_mod, ex_mod, fileutil, _fp_mod]


def gen_case(seed, tier):
    ch = Chooser(seed)
    W = "workload"
    kind = ch.pick("config", "kind", ["imm-upload", "imm-lease", "mut-grow", "mut-lease", "mut-trunc-del", "mixed"])
    ops = []
    iv = ch.pick("config", "iv", [1, 2, 2])
    mv = ch.pick("config", "mv", [1, 2, 2])
    ops.append(["schema", iv, mv])
    # (sizes beyond Python's 8 KiB file buffer matter: only then do two logical writes reach the kernel as two system calls)
    size = ch.pick(W, "size", [1, 10, 100, 200, 1000, 9000, 20000])

    def upload(si_i, shnums, sec, close=True, chunks=None):
        o = [["alloc", si_i, shnums, size, sec, 0]]
        for n in shnums:
            pass
        return o

    if kind in ("imm-upload", "imm-lease", "mixed"):
        # a complete share 0 (and sometimes 1) first, by plain ops; the tail ops are the interesting ones
        nsh = ch.randint(W, "nsh", 1, 3)
        shn = list(range(nsh))
        ops.append(["alloc", 0, shn, size, 0, 0])
        nchunks = ch.randint(W, "nchunks", 1, 3)
        step = max(1, (size + nchunks - 1) // nchunks)
        for w in range(nsh):
            for c in range(nchunks):
                if c * step < size:
                    ops.append(["write_exact", w, c * step, min(step, size - c * step)])
        ncl = ch.randint(W, "ncl", 0, nsh)
        for w in range(ncl):
            ops.append(["close", w])
        if kind == "imm-lease" or (kind == "mixed" and ch.chance(W, "lease", 0.7)):
            for w in range(ncl, nsh):
                ops.append(["close", w])
            for j in range(ch.randint(W, "nlease", 1, 4)):
                k = ch.pick(W, ("lk", j), ["add_lease", "add_lease", "renew_lease", "realloc"])
                if k == "realloc":
                    ops.append(["alloc", 0, [0, 5], size, ch.randrange(W, ("ls", j), 4), 1])
                else:
                    ops.append([k, 0, ch.randrange(W, ("ls", j), 4)])
                if ch.chance(W, ("adv", j), 0.5):
                    ops.append(["advance", 86400 * ch.randint(W, ("advd", j), 1, 20)])
        else:
            # second upload into the same bucket while the first may be complete
            if ch.chance(W, "second", 0.5):
                ops.append(["alloc", 0, [7], size, 1, 1])
                ops.append(["write_exact", nsh, 0, size])
                ops.append(["close", nsh])
            if ch.chance(W, "abort", 0.3):
                ops.append(["abort", ch.randrange(W, "abw", nsh)])
    if kind in ("mut-grow", "mut-lease", "mut-trunc-del", "mixed"):
        nsh = ch.randint(W, "mnsh", 1, 3)
        nleases = ch.pick(W, "nleases", [1, 3, 5, 6, 7])
        base = ch.pick(W, "base", [0, 10, 100, 500])
        tw = [[n, [], [[0, base, 100 + n]], None] for n in range(nsh)]
        ops.append(["writev", 1, 0, 0, tw, []])
        for s in range(1, nleases):
            ops.append(["add_lease", 1, s])
        if kind == "mut-grow" or kind == "mixed":
            for j in range(ch.randint(W, "ngrow", 1, 3)):
                n = ch.randrange(W, ("gsh", j), nsh)
                off = ch.pick(W, ("goff", j), [0, base, base + 1, base + 50, 1000, 3000])
                ops.append(["writev", 1, 0, ch.randrange(W, ("gsec", j), 3), [[n, [], [[off, ch.pick(W, ("glen", j), [1, 40, 200, 900]), 200 + j]], None]], []])
        if kind == "mut-lease":
            for j in range(ch.randint(W, "nml", 1, 4)):
                ops.append([ch.pick(W, ("mlk", j), ["add_lease", "add_lease", "renew_lease"]), 1, ch.randrange(W, ("mls", j), 9)])
                if ch.chance(W, ("madv", j), 0.5):
                    ops.append(["advance", 86400 * ch.randint(W, ("madvd", j), 1, 20)])
        if kind == "mut-trunc-del":
            for j in range(ch.randint(W, "ntd", 1, 3)):
                n = ch.randrange(W, ("tsh", j), nsh)
                nl = ch.pick(W, ("tnl", j), [0, 0, 1, base // 2, base])
                ops.append(["writev", 1, 0, 0, [[n, [], [], nl]], []])
    return {"engine": "crashsim", "seed": seed, "cfg": {"profile": "crash"}, "ops": ops, "points": "all"}


class CStore(Store):
    def op_write_exact(self, widx, off, ln):
        """write the upload's own content at an exact offset (no modulo games)."""
        wids = sorted(self.writers)
        if widx >= len(wids):
            return
        w = self.writers[wids[widx]]
        if w["closed"]:
            return
        sh = self.imm[w["key"]]
        data = pat_bytes(sh["upload"], ln, off)
        w["w"].remote_write(off, data)
        sh["data"][off:off + ln] = data
        for i in range(off, off + ln):
            sh["mask"][i] = 1
        w["last"] = R.seconds()


def named_shares(st, op):
    """(data-written final shares, lease-touched SIs) of an op, in terms of final share keys."""
    k = op[0]
    if k == "close":
        wids = sorted(st.writers)
        if op[1] % max(1, len(wids)) < len(wids) and wids:
            w = st.writers[wids[op[1] % len(wids)]]
            return {w["key"]}, set()
        return set(), set()
    if k == "writev":
        return {(op[1], t[0]) for t in op[4]}, set()
    if k in ("add_lease", "renew_lease"):
        return set(), {op[1]}
    if k == "alloc":
        return set(), {op[1]}
    return set(), set()


def read_share(path):
    """(kind, data, leases) through the production container classes; raises if unreadable."""
    with open(path, "rb") as f:
        header = f.read(32)
    if MutableShareFile.is_valid_header(header):
        m = MutableShareFile(path)
        L = m.get_length()
        return ("mut", m.readv([(0, L)])[0], [(l.get_expiration_time(), l.present_renew_secret()) for l in m.get_leases()])
    sf = ShareFile(path)
    L = sf.get_length()
    return ("imm", sf.read_share_data(0, L), [(l.get_expiration_time(), l.present_renew_secret()) for l in sf.get_leases()])


def run_once(case, crash_at, base):
    """Returns (points_seen, log, violations, info)."""
    R.reset_sim()
    storesim.set_container_schema(2, 2)
    crashfs.LAYER.reset()
    crashfs.install(MODS)
    try:
        st = CStore(base, case["cfg"])
        crashfs.LAYER.reset()
        crashfs.LAYER.crash_at = crash_at
        viol = []
        crashed_op = None
        for idx, op in enumerate(case["ops"]):
            before_files = st.snapshot_files() if crash_at is not None else None
            before_parsed = {}
            if crash_at is not None:
                for rel in before_files:
                    if rel.startswith("incoming"):
                        continue
                    try:
                        before_parsed[rel] = read_share(os.path.join(st.ss.sharedir, rel))
                    except Exception as e:   # pre-existing unreadable share: not this op's doing
                        before_parsed[rel] = ("unreadable", repr(e), [])
            named, leased = named_shares(st, op)
            model_imm = {k: bytes(v["data"]) for k, v in st.imm.items()}
            p0 = crashfs.LAYER.count
            try:
                st.run_op(op)
            except crashfs.CrashNow:
                crashed_op = (idx, op, crashfs.LAYER.count - p0, crashfs.LAYER.log[-1] if crashfs.LAYER.log else None)
                break
            if st.viol:
                # model/server disagreement without any crash: not C29's business, stop quietly
                return crashfs.LAYER.count, list(crashfs.LAYER.log), [], {"desync": st.viol[0]["clause"]}
        points = crashfs.LAYER.count
        log = list(crashfs.LAYER.log)
        if crashed_op is None:
            return points, log, [], {}
        # ---- the process is dead: only the directory survives -------------------------------
        idx, op, rel_point, pt = crashed_op
        R.drop_pending()
        crashfs.LAYER.reset()          # new incarnation: no crash armed, live file system
        where = "%s#%d(%s)" % (op[0], rel_point, (pt[1] + ":" + pt[2].split("@")[0].split(" ")[0]) if pt else "?")

        def bad(clause, detail, sigx):
            viol.append({"clause": "C29." + clause, "sig": "C29.%s.%s.%s" % (clause, op[0], sigx),
                         "detail": "crash in op %d %r before point %s: %s" % (idx, op[:4], where, detail)})
        try:
            st2 = Store(base, case["cfg"])
        except Exception as e:
            bad("restart-fails", "StorageServer() raised %r" % (e,), "x")
            return points, log, viol, {}
        inc = [os.path.join(r, f) for r, d, fs in os.walk(st2.ss.incomingdir) for f in fs]
        if inc:
            bad("incoming-not-discarded", "files left under incoming/: %r" % (inc[:3],), "x")
        after_files = st2.snapshot_files()
        for rel, raw in sorted(before_files.items()):
            if rel.startswith("incoming"):
                continue
            parts = rel.split(os.sep)
            shnum = int(parts[-1])
            si_i = [i for i in range(4) if storesim.storage_index_to_dir(si_of(i)) == os.path.join(*parts[:-1])]
            key = (si_i[0], shnum) if si_i else None
            kind0, data0, leases0 = before_parsed[rel]
            ptdesc = (pt[1] + "-" + pt[2].split("@")[0]) if pt else "?"
            if key in named:
                if kind0 == "imm":
                    bad("complete-share-rewritten", "named immutable share changed?", "x") if after_files.get(rel) != raw else None
                continue   # mutable share being written: any state is allowed
            if key is not None and key[0] in leased:
                # lease-only operation on this share: data must be unchanged, old leases kept
                if rel not in after_files:
                    bad("lease-op-lost-share", "share %s vanished" % rel, kind0)
                    continue
                try:
                    kind1, data1, leases1 = read_share(os.path.join(st2.ss.sharedir, rel))
                except Exception as e:
                    bad("lease-op-unreadable", "share %s unreadable after restart: %r" % (rel, e), "%s.%s" % (kind0, ptdesc))
                    continue
                if data1 != data0:
                    bad("lease-op-changed-data", "share %s data changed by a lease-only operation: length %d -> %d%s" % (
                        rel, len(data0), len(data1), "" if len(data0) != len(data1) else " (same length, different bytes)"),
                        "%s.%s" % (kind0, ptdesc))
                    continue
                old = dict((s, e) for (e, s) in leases0)
                new = dict((s, e) for (e, s) in leases1)
                lost = [s for s in old if s not in new or new[s] < old[s]]
                if lost:
                    bad("lease-op-lost-leases", "share %s lost/shortened %d of %d old leases" % (rel, len(lost), len(old)),
                        "%s.%s" % (kind0, ptdesc))
                continue
            # any other share: byte-identical
            if after_files.get(rel) != raw:
                bad("bystander-changed", "share %s (not named by the operation) changed: %s" % (
                    rel, "vanished" if rel not in after_files else "bytes differ"), kind0)
        # immutable shares: absent or complete
        for rel, raw in sorted(after_files.items()):
            if rel.startswith("incoming") or rel in before_files:
                continue
            parts = rel.split(os.sep)
            shnum = int(parts[-1])
            si_i = [i for i in range(4) if storesim.storage_index_to_dir(si_of(i)) == os.path.join(*parts[:-1])]
            key = (si_i[0], shnum) if si_i else None
            if key in model_imm:
                try:
                    kind1, data1, leases1 = read_share(os.path.join(st2.ss.sharedir, rel))
                except Exception as e:
                    bad("new-immutable-unreadable", "%s: %r" % (rel, e), "x")
                    continue
                if data1 != model_imm[key]:
                    bad("immutable-incomplete", "new immutable share %s is visible but differs from the uploaded bytes (%d vs %d bytes)" % (
                        rel, len(data1), len(model_imm[key])), "x")
                if not leases1:
                    bad("immutable-no-lease", "new immutable share %s has no lease" % rel, "x")
        return points, log, viol, {"crashed_op": op[0], "where": where}
    finally:
        crashfs.uninstall()
        crashfs.LAYER.reset()


def execute(case):
    from sim.runner import child_tmp
    root = tempfile.mkdtemp(dir=child_tmp())
    n = [0]

    def fresh():
        n[0] += 1
        d = os.path.join(root, "r%d" % n[0])
        os.makedirs(d)
        return d
    points, log, v, info = run_once(case, None, fresh())
    fp = hashlib.sha256(repr([(k, d.split("@")[0].split(" ")[0]) for (_, k, d) in log]).encode())
    viol = []
    crashes = {}
    if info.get("desync"):
        return {"violations": [], "digest": fp.hexdigest(), "fingerprint": fp.hexdigest()[:16], "nontrivial": False,
                "events": 0, "sim_s": 0.0, "faults": {}, "probes": {"desync-skipped": 1}}
    todo = range(1, points + 1) if case.get("points", "all") == "all" else case["points"]
    digest = hashlib.sha256()
    for pnum in todo:
        p2, log2, v2, info2 = run_once(case, pnum, fresh())
        digest.update(repr((pnum, info2.get("where"), sorted(x["sig"] for x in v2))).encode())
        if info2.get("crashed_op"):
            crashes[info2["crashed_op"]] = crashes.get(info2["crashed_op"], 0) + 1
        for x in v2:
            x["point"] = pnum
            viol.append(x)
    kinds = {}
    for (_, k, d) in log:
        kinds["point-" + k] = kinds.get("point-" + k, 0) + 1
    # distinct signatures only, first point of each
    seen, out = set(), []
    for x in viol:
        if x["sig"] not in seen:
            seen.add(x["sig"])
            out.append(x)
    return {"violations": out[:6], "digest": digest.hexdigest(), "fingerprint": fp.hexdigest()[:16],
            "nontrivial": points >= 4, "events": points, "sim_s": R.true_seconds() - EPOCH,
            "faults": dict(("crash-in-" + k, v) for k, v in crashes.items()), "probes": kinds,
            "crash_points": points}


def shrink(case):
    """Candidates: a single crash point instead of all."""
    if case.get("points") == "all":
        # try each point alone is expensive; the driver tries the first few
        for p in range(1, 80):
            c = dict(case)
            c["points"] = [p]
            yield c
