"""helpersim — helper-assisted immutable upload with interruptions and resumes (DESIGN §4 C44).

Real Helper / CHKUploadHelper / CHKCiphertextFetcher on a helper node, real AssistedUploader /
RemoteEncryptedUploadable on one or two clients, real storage servers; SimNet in between.  A direct upload
of the same file with the same convergence secret and parameters, by a client connected to a disjoint set
of servers, is the reference for caps and share bytes; the true ciphertext (AES-CTR under the key of the
direct cap) is the reference for what the helper holds on disk.
"""
import hashlib
import os
import tempfile

from cryptography.hazmat.primitives.ciphers import Cipher, algorithms, modes

from engines import gridsim
from engines.gridsim import R, Grid, run, EPOCH
from engines.immsim import RecConsumer, apply_knobs, gen_knobs, pat_bytes, err_name
from oracles import sharecheck
from sim.choice import Chooser
from sim.reactor import EventCap

from allmydata.immutable.upload import Data
from allmydata.immutable import offloaded as off_mod
from allmydata.immutable.offloaded import Helper
from allmydata.storage.common import si_b2a


_DEFAULT_CHUNK = off_mod.CHKCiphertextFetcher.CHUNK_SIZE


def gen_helper(seed, tier, focus="C44"):
    ch = Chooser(seed)
    W = "workload"
    n = ch.randint("config", "n", 2, 6)
    k = ch.randint("config", "k", 1, n)
    nh = ch.randint("config", "nh", 2, 6)            # servers the helper uploads to
    happy = ch.randint("config", "happy", 1, min(nh, n))
    seg = ch.pick("config", "seg", [64, 256, 1024, 4096])
    fetch_chunk = ch.pick("config", "fetch_chunk", [97, 512, 1000, 4096, _DEFAULT_CHUNK])
    size = ch.weighted("config", "sizeclass", [("small", 3), ("mid", 4), ("big", 1.5), ("literal", 0.6)])
    size = {"literal": ch.pick("config", "size-lit", [0, 1, 13, 54, 55, 55]), "small": ch.randint("config", "size", 56, 600), "mid": ch.randint("config", "size", 601, 6000),
            "big": ch.randint("config", "size", 6001, 30000)}[size]
    nchunks = max(1, (size + fetch_chunk - 1) // fetch_chunk)
    ops = []
    nops = ch.randint(W, "nops", 1, 5 if tier == "quick" else 8)

    def fault(i):
        kd = ch.weighted(W, ("fk", i), [("none", 2), ("client-drop", 4), ("helper-crash-fetch", 4), ("helper-crash-push", 2.5), ("server-drop", 1.5)])
        if kd == "none":
            return None
        if kd in ("client-drop", "helper-crash-fetch"):
            return {"kind": kd, "nth": ch.randint(W, ("fn", i), 1, nchunks + 1), "phase": ch.pick(W, ("fp", i), ["before", "after"]),
                    "keep": ch.pick(W, ("keep", i), [1.0, 1.0, 0.0, 0.5, 0.9])}
        if kd == "helper-crash-push":
            return {"kind": kd, "method": ch.pick(W, ("fm", i), ["allocate_buckets", "write", "write", "close"]), "nth": ch.randint(W, ("fn", i), 1, 12),
                    "keep": 1.0}
        return {"kind": kd, "server": ch.randrange(W, ("fs", i), nh), "method": ch.pick(W, ("fm", i), ["allocate_buckets", "write", "close"]),
                "nth": ch.randint(W, ("fn", i), 1, 4)}
    for i in range(nops):
        kd = ch.weighted(W, ("k", i), [("hupload", 6), ("concurrent", 2), ("lose-share", 1.2), ("dup-share", 1.2), ("wipe", 2.5), ("restart-helper", 0.8), ("wait", 1.0)])
        if kd == "hupload":
            ops.append(["hupload", ch.randrange(W, ("c", i), 2), fault(i)])
        elif kd == "concurrent":
            # the second uploader starts after a delay, or when the helper sends its j-th bucket close (the end of the first upload)
            ops.append(["concurrent", fault(i), ch.pick(W, ("gap", i), [0.0, 0.0005, 0.01, 0.2, ["close", 1], ["close", ch.randint(W, ("gapj", i), 1, n)],
                                                                        ["close", n], ["write", ch.randint(W, ("gapw", i), 1, 10)]])])
        elif kd == "lose-share":
            ops.append(["lose-share", ch.randrange(W, ("s", i), nh), ch.randrange(W, ("sh", i), n)])
        elif kd == "dup-share":
            # one share number is lost everywhere while another exists twice: as many share copies as before, fewer distinct shares
            ops.append(["dup-share", ch.randrange(W, ("dsh", i), n), ch.randrange(W, ("dto", i), nh), ch.randrange(W, ("dlost", i), n)])
        elif kd in ("wait", "wipe"):
            ops.append([kd])
        else:
            ops.append(["restart-helper", ch.pick(W, ("keep", i), [1.0, 0.0, 0.5])])
    return {"engine": "helpersim", "seed": seed, "focus": focus,
            "cfg": {"k": k, "n": n, "happy": happy, "nh": nh, "seg": seg, "size": size, "datapat": ch.randrange("config", "pat", 1 << 30),
                    "fetch_chunk": fetch_chunk, "knobs": gen_knobs(ch),
                    "net": {"threads": ch.pick("config", "threads", ["sync", "sync", "async"]), "batch": ch.pick("config", "batch", [0, 0, 0, 0.001, 0.02, 0.3]), "lat_profile": ch.pick("config", "lat", ["uniform", "heavy", "fifo"]), "jitter": ch.pick("config", "jit", [0.01, 0.1])}},
            "ops": ops, "faults": []}


def exec_helper(case):
    from sim.runner import child_tmp
    cfg = case["cfg"]
    base = tempfile.mkdtemp(dir=child_tmp())
    R.reset_sim()
    apply_knobs(cfg["knobs"])
    off_mod.CHKCiphertextFetcher.CHUNK_SIZE = cfg["fetch_chunk"]
    viol, probes = [], {}

    def probe(nm, c=1):
        probes[nm] = probes.get(nm, 0) + c

    def bad(clause, detail, sig=None):
        viol.append({"clause": "C44." + clause, "sig": sig or "C44." + clause, "detail": detail})

    g = Grid(case["seed"], base, cfg["net"])
    try:
        k, n, happy, nh = cfg["k"], cfg["n"], cfg["happy"], cfg["nh"]
        hservers = [g.add_server() for _ in range(nh)]
        dservers = [g.add_server() for _ in range(min(n, max(happy, 2)))]
        conv = hashlib.sha256(b"conv-helpersim").digest()[:16]
        data = pat_bytes(cfg["datapat"], cfg["size"])

        def mkclient():
            c = g.add_client(k=k, happy=happy, n=n, segsize=cfg["seg"], connect=False)
            return c
        direct = mkclient()
        for s in dservers:
            g.connect(direct, s)
        clients = [mkclient(), mkclient()]
        for c in clients:
            for s in hservers:
                g.connect(c, s)
        hnode = g.add_client(k=3, happy=1, n=10, connect=False)     # the helper node's own parameters are irrelevant: the client's are used
        for s in hservers:
            g.connect(hnode, s)
        hdir = os.path.join(base, "helper")
        state = {"helper": None, "gen": 0}

        # ---- reference: direct upload -----------------------------------------------------
        st, res = run(direct.upload(Data(data, convergence=conv)))
        if st != "ok":
            # the direct reference itself is not what this check is about
            probe("direct-upload-" + st)
            return finish(g, viol, probes, case, False)
        want_cap = res.get_uri()
        want_vcap = res.get_verifycapstr()
        if want_cap.startswith(b"URI:LIT:") or cfg["size"] <= 55:
            # a literal-sized file: "the same caps as a direct upload" means a literal cap, no request to the helper, no shares
            requests = []
            g.net.call_filter = lambda caller, callee, methname, args, kwargs, res_: requests.append(methname) if callee == "helper" else None
            helper_ = Helper(hdir, hnode.storage_broker, hnode._secret_holder, None, None)
            for c in clients:
                ref = g.net.ref(c.sim_name, "helper", helper_)
                ref.version = helper_.remote_get_version()
                up = c.getServiceNamed("uploader")
                up._helper_furl = "pb://helper@sim/helper"
                up._helper = ref
                ref.notifyOnDisconnect(up._lost_helper)
            for ci, c in enumerate(clients):
                try:
                    st2, res2 = run(c.upload(Data(data, convergence=conv)), 300_000)
                except EventCap:
                    bad("livelock", "literal-sized upload through a client with a helper never quiesces")
                    break
                probe("literal-sized-upload-" + st2); probe("success-judged")
                if st2 != "ok":
                    bad("faultfree-upload-failed", "a %d-byte file uploaded by a client that has a helper: %s (the direct upload returned %r)" % (
                        cfg["size"], err_name(res2) if st2 == "err" else st2, want_cap), sig="C44.faultfree-upload-failed.literal")
                elif res2.get_uri() != want_cap:
                    bad("cap-differs", "a %d-byte file: the client with a helper got %r, the direct upload of the same bytes got %r" % (cfg["size"], res2.get_uri(), want_cap))
            if requests:
                bad("literal-went-to-helper", "a %d-byte (literal) file caused %d requests to the helper (%r)" % (cfg["size"], len(requests), requests[:4]))
            nshares = sum(len(files) for s_ in hservers for _r, _d, files in os.walk(s_.ss.sharedir))
            if nshares:
                bad("literal-made-shares", "a %d-byte (literal) file left %d share files on the helper's servers" % (cfg["size"], nshares))
            return finish(g, viol, probes, case, True)
        capd = sharecheck.parse_chk_cap(want_cap)
        from oracles import refhash
        si = refhash.storage_index_from_key(capd["key"])
        enc = Cipher(algorithms.AES(capd["key"]), modes.CTR(b"\x00" * 16)).encryptor()
        crypttext = enc.update(data) + enc.finalize()
        want_shares = {}
        for s in dservers:
            for shnum, raw in s.shares_of(si).items():
                want_shares[shnum] = sharecheck.split_container(raw)[1]
        if sorted(want_shares) != list(range(n)):
            probe("direct-upload-incomplete")
            return finish(g, viol, probes, case, False)
        incoming = os.path.join(hdir, "CHK_incoming", si_b2a(si).decode("ascii"))
        encoding = os.path.join(hdir, "CHK_encoding", si_b2a(si).decode("ascii"))

        # ---- helper plumbing -----------------------------------------------------------------
        def start_helper():
            state["gen"] += 1
            state["helper"] = Helper(hdir, hnode.storage_broker, hnode._secret_holder, None, None)
            for c in clients:
                attach(c)

        def attach(c):
            g.net.heal(c.sim_name, "helper")
            ref = g.net.ref(c.sim_name, "helper", state["helper"])
            ref.version = state["helper"].remote_get_version()
            up = c.getServiceNamed("uploader")
            up._helper_furl = "pb://helper@sim/helper"
            up._helper = ref
            ref.notifyOnDisconnect(up._lost_helper)

        def kill_helper(why):
            """process death: every connection of the helper node drops at once"""
            probe("helper-killed")
            for c in clients:
                g.net.disconnect(c.sim_name, "helper", why)
            for s in hservers:
                g.net.disconnect(hnode.sim_name, s.name, why)
            state["dead"] = True

        def restart_helper(keep):
            # let the dead process' objects see their connections fail (they can no longer reach anything), then
            # apply what a kill does to buffered, unflushed appends: a prefix of what had been written survives
            R.run_until(None, 200000, until_time=R.true_seconds() + 2.0)
            if os.path.exists(incoming) and keep < 1.0:
                sz = os.path.getsize(incoming)
                with open(incoming, "r+b") as f:
                    f.truncate(int(sz * keep))
                probe("incoming-truncated")
            for s in hservers:
                g.reconnect(hnode, s)
            state["dead"] = False
            start_helper()
            probe("helper-restarted")

        def all_present():
            """every share number present and intact on a server the helper is connected to"""
            have = set()
            for s in hservers:
                c = g.net.conns.get((hnode.sim_name, s.name))
                if c is None or not c.up:
                    continue
                for shnum, raw in s.shares_of(si).items():
                    if sharecheck.split_container(raw)[1] == want_shares.get(shnum):
                        have.add(shnum)
            return len(have) == n

        # ---- monitors ----------------------------------------------------------------------------
        counters = {"read_encrypted": 0, "allocate_buckets": 0, "pushed": 0}
        trigger = {}

        def check_disk(where):
            for path, nm in ((incoming, "incoming"), (encoding, "encoding")):
                if os.path.exists(path):
                    with open(path, "rb") as f:
                        got = f.read()
                    if nm == "encoding" and got != crypttext:
                        bad("helper-ciphertext-wrong", "%s: the helper's CHK_encoding file (%d bytes) is not the file's ciphertext (%d bytes)" % (
                            where, len(got), len(crypttext)))
                    elif nm == "incoming" and crypttext[:len(got)] != got:
                        bad("helper-ciphertext-wrong", "%s: the helper's CHK_incoming file (%d bytes) is not a prefix of the file's ciphertext" % (where, len(got)))

        def on_call(caller, callee, methname, args, kwargs, res):
            if methname == "read_encrypted":
                counters["read_encrypted"] += 1
                check_disk("at read_encrypted(%r, %r)" % (args[0], args[1]))
            elif methname == "allocate_buckets" and caller == hnode.sim_name:
                counters["allocate_buckets"] += 1
            t2 = trigger.get("second")
            if t2 and caller == hnode.sim_name and methname == t2["method"]:
                t2["seen"] += 1
                if t2["seen"] == t2["nth"]:
                    t2["fn"]()
            t = trigger.get("rule")
            if t and not t["done"] and methname == t["method"] and (t["caller"] is None or caller == t["caller"]):
                t["seen"] += 1
                if t["seen"] == t["nth"]:
                    t["done"] = True
                    kill_helper("helper killed at %s #%d" % (methname, t["nth"]))
        g.net.call_filter = on_call

        def arm(fault, ci):
            trigger.clear()
            if not fault:
                return
            kd = fault["kind"]
            probe("armed-" + kd)
            if kd == "client-drop":
                g.net.add_fault({"kind": "disconnect_" + fault["phase"], "caller": "helper", "callee": clients[ci].sim_name,
                                 "method": "read_encrypted", "nth": fault["nth"]})
            elif kd == "helper-crash-fetch":
                trigger["rule"] = {"method": "read_encrypted", "caller": None, "nth": fault["nth"], "seen": 0, "done": False}
            elif kd == "helper-crash-push":
                trigger["rule"] = {"method": fault["method"], "caller": hnode.sim_name, "nth": fault["nth"], "seen": 0, "done": False}
            elif kd == "server-drop":
                g.net.add_fault({"kind": "disconnect_before", "caller": hnode.sim_name, "callee": hservers[fault["server"] % nh].name,
                                 "method": fault["method"], "nth": fault["nth"]})

        def disarm():
            trigger.clear()
            for r in g.net.faults:
                r["done"] = True

        def heal_all():
            # disconnect notifications (Uploader._lost_helper) are delivered by eventually(): let them land before reattaching
            R.run_until(None, 200000, until_time=R.true_seconds() + 0.5)
            for s in hservers:
                c = g.net.conns.get((hnode.sim_name, s.name))
                if c is not None and not c.up:
                    g.reconnect(hnode, s)
            for c in clients:
                cn = g.net.conns.get((c.sim_name, "helper"))
                if cn is None or not cn.up or c.getServiceNamed("uploader")._helper is None:
                    attach(c)

        def judge_success(res, who, where):
            cap = res.get_uri()
            if cap != want_cap or res.get_verifycapstr() != want_vcap:
                bad("cap-differs", "%s: helper-assisted upload by %s returned %r / %r, the direct upload of the same file with the same convergence secret and "
                    "parameters returned %r / %r" % (where, who, cap, res.get_verifycapstr(), want_cap, want_vcap))
                return
            # success was reported: the file must be there, with exactly the shares an uninterrupted (direct) upload produces
            found = {}
            for s in hservers:
                for shnum, raw in s.shares_of(si).items():
                    body = sharecheck.split_container(raw)[1]
                    if body != want_shares.get(shnum):
                        bad("shares-differ", "%s: share %d on %s (%d bytes) differs from the share a direct upload produces (%d bytes)" % (
                            where, shnum, s.name, len(body), len(want_shares.get(shnum, b""))))
                    found.setdefault(shnum, set()).add(s.name)
            if len(found) < k:
                # (legal when shares.happy < k: the uploader's success criterion is happiness, C06 — not this property's business)
                probe("success-with-fewer-than-k-shares")
            probe("success-judged")

        def hupload(ci, fault, where):
            """one assisted upload; -> status"""
            c = clients[ci]
            if c.getServiceNamed("uploader")._helper is None:
                attach(c)
            present_before = all_present() and not state.get("dead")
            before = dict(counters)
            arm(fault, ci)
            st, res = run(c.upload(Data(data, convergence=conv)))
            disarm()
            R.note("hupload %s" % st)
            probe("hupload-" + st)
            if st == "hung":
                bad("upload-hung", "%s: the assisted upload neither finished nor failed (quiescent)" % where)
                return st
            if st == "ok":
                judge_success(res, c.sim_name, where)
                if present_before and not fault:
                    probe("already-present-case")
                    if counters["read_encrypted"] != before["read_encrypted"] or counters["allocate_buckets"] != before["allocate_buckets"]:
                        bad("reuploaded-present-file", "%s: all %d shares were present and intact on the helper's servers, yet the helper fetched ciphertext "
                            "(%d read_encrypted) / allocated buckets (%d)" % (where, n, counters["read_encrypted"] - before["read_encrypted"],
                                                                             counters["allocate_buckets"] - before["allocate_buckets"]))
            else:
                probe("hupload-err-" + res.value.__class__.__name__)
                if not fault and not state.get("dead") and state.get("tainted"):
                    # an earlier failed upload may have left allocated buckets on the servers (they block new allocations for the
                    # same shares until the servers' 30-minute bucket timeout): not this property's business
                    probe("faultfree-failure-after-failed-upload")
                elif not fault and not state.get("dead"):
                    bad("faultfree-upload-failed", "%s: an assisted upload with no fault armed failed: %s" % (where, res.getTraceback()[-900:]),
                        sig="C44.faultfree-upload-failed." + res.value.__class__.__name__)
            if st != "ok":
                state["tainted"] = True
            check_disk("after " + where)
            return st

        def wait_out_bucket_timeouts():
            if state.get("tainted"):
                R.run_until(None, 400000, until_time=R.true_seconds() + 31 * 60)
                state["tainted"] = False
                probe("waited-out-bucket-timeouts")

        start_helper()
        for opi, op in enumerate(case["ops"]):
            kd = op[0]
            where = "op %d (%s)" % (opi, kd)
            R.note(where)
            if kd == "hupload":
                fault = op[2]
                st = hupload(op[1] % 2, fault, where)
                if state.get("dead") or (fault and fault["kind"].startswith("helper-crash")):
                    if not state.get("dead"):
                        probe("crash-trigger-not-reached")
                    else:
                        restart_helper(fault.get("keep", 1.0) if fault else 1.0)
                heal_all()
            elif kd == "concurrent":
                fault, gap = op[1], op[2]
                for c in clients:
                    if c.getServiceNamed("uploader")._helper is None:
                        attach(c)
                arm(fault, 0)
                box = []
                d0 = clients[0].upload(Data(data, convergence=conv))
                d0.addBoth(lambda r: box.append((0, r)))
                started = []

                def start_second():
                    if not started:
                        started.append(1)
                        d1 = clients[1].upload(Data(data, convergence=conv))
                        d1.addBoth(lambda r: box.append((1, r)))
                if isinstance(gap, list):
                    trigger["second"] = {"method": gap[0], "nth": gap[1], "seen": 0, "fn": start_second}
                    R.run_until(lambda: len(box) > 0 or bool(started), 400000)
                    trigger.pop("second", None)
                    probe("second-started-at-%s" % gap[0] if started else "second-started-after-first-finished")
                elif gap:
                    R.run_until(lambda: len(box) > 0, 200000, until_time=R.true_seconds() + gap)
                start_second()
                R.run_until(lambda: len(box) == 2, 400000)
                disarm()
                if len(box) < 2:
                    bad("upload-hung", "%s: %d of 2 concurrent assisted uploads of the same file never finished" % (where, 2 - len(box)))
                from twisted.python.failure import Failure
                for (ci, r) in box:
                    if isinstance(r, Failure):
                        probe("concurrent-err")
                        if not fault and state.get("tainted"):
                            probe("faultfree-failure-after-failed-upload")
                        elif not fault:
                            bad("faultfree-upload-failed", "%s: concurrent assisted upload by c%d failed with no fault armed: %s" % (where, ci, r.getTraceback()[-900:]),
                                sig="C44.faultfree-upload-failed.concurrent." + r.value.__class__.__name__)
                    else:
                        probe("concurrent-ok")
                        judge_success(r, clients[ci].sim_name, where)
                if any(isinstance(r, Failure) for (_ci, r) in box) or len(box) < 2:
                    state["tainted"] = True
                check_disk("after " + where)
                if state.get("dead"):
                    restart_helper(fault.get("keep", 1.0))
                heal_all()
            elif kd == "lose-share":
                s = hservers[op[1] % nh]
                p = s.share_path(si, op[2] % n)
                if os.path.exists(p):
                    os.unlink(p)
                    probe("share-lost")
            elif kd == "dup-share":
                _, dsh, dto, dlost = op
                dsh, dlost = dsh % n, dlost % n
                holders = [s_ for s_ in hservers if dsh in s_.shares_of(si)]
                tgt = hservers[dto % nh]
                if holders and dsh != dlost and dsh not in tgt.shares_of(si):
                    os.makedirs(os.path.dirname(tgt.share_path(si, dsh)), exist_ok=True)
                    with open(tgt.share_path(si, dsh), "wb") as f_:
                        f_.write(holders[0].shares_of(si)[dsh])
                    for s_ in hservers:
                        if dlost in s_.shares_of(si):
                            os.unlink(s_.share_path(si, dlost))
                    probe("share-duplicated-another-lost")
            elif kd == "restart-helper":
                kill_helper("restart op")
                restart_helper(op[1])
                heal_all()
            elif kd == "wait":
                wait_out_bucket_timeouts()
            elif kd == "wipe":
                # every share is lost: the next assisted upload is a full one again
                for s_ in hservers:
                    for shnum in list(s_.shares_of(si)):
                        os.unlink(s_.share_path(si, shnum))
                probe("wiped")
            if viol:
                break
        # ---- after the faults: a fault-free assisted upload succeeds and everything is in place ----------
        if not viol:
            heal_all()
            wait_out_bucket_timeouts()
            st = hupload(0, None, "final fault-free upload")
            if st == "ok" and not viol:
                if not all_present():
                    have = sorted(set(sh for s in hservers for sh in s.shares_of(si)))
                    bad("final-shares-missing", "after the final fault-free assisted upload reported success, shares present: %r of %d" % (have, n))
                # and it reads back
                node = clients[1].create_node_from_uri(want_cap)
                cons = RecConsumer("final")
                st2, r2 = run(node.read(cons))
                if st2 != "ok" or cons.data() != data:
                    bad("final-download", "the file uploaded through the helper does not read back (%s)" % st2)
                # once more: now it must be reported present without any transfer
                st3 = hupload(1, None, "repeat upload of a present file")
                if os.path.exists(incoming) or os.path.exists(encoding):
                    probe("helper-files-left-behind")
        return finish(g, viol, probes, case, True)
    except EventCap:
        viol.append({"clause": "C44.livelock", "sig": "C44.livelock", "detail": "event cap reached"})
        return finish(g, viol, probes, case, True)
    finally:
        off_mod.CHKCiphertextFetcher.CHUNK_SIZE = _DEFAULT_CHUNK
        g.close()


def finish(g, viol, probes, case, nontrivial):
    fp = hashlib.sha256(repr((sorted(probes.items()), sorted(g.net.fired.items()))).encode()).hexdigest()[:16]
    if R.errors:
        viol.append({"clause": "C44.unhandled-error", "sig": "C44.unhandled-error." + R.errors[0][1].strip().splitlines()[-1].split(":")[0],
                     "detail": "exception escaped into the reactor:\n" + R.errors[0][1][-1500:]})
    for nm in R.logged_errors:
        probes["logged-error-" + nm] = probes.get("logged-error-" + nm, 0) + 1
    faults = dict(g.net.fired)
    for k_ in ("helper-killed", "incoming-truncated", "share-lost"):
        if probes.get(k_):
            faults[k_] = probes[k_]
    return {"violations": viol[:4], "digest": R.digest(), "fingerprint": fp, "nontrivial": nontrivial and bool(probes.get("success-judged")),
            "events": R.events, "sim_s": R.true_seconds() - EPOCH, "faults": faults, "probes": probes}
