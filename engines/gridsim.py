"""gridsim — real StorageServers + real allmydata.client._Client stacks joined by SimNet
(DESIGN §3).  Only networking initialisers of the client are overridden; uploader, encoder,
server selector, downloader, mutable publish/retrieve, nodemaker, dirnode are production code.
"""
import hashlib
import os
import struct

from sim import boot
from sim.choice import Chooser
from sim.net import SimNet
from sim.reactor import EPOCH

R = boot.install()

from twisted.application import service                                   # noqa: E402
from twisted.internet import defer                                        # noqa: E402
from allmydata import client as client_mod                                # noqa: E402
from allmydata.client import _Client, read_config                         # noqa: E402
from allmydata.storage.server import StorageServer, FoolscapStorageServer  # noqa: E402
from allmydata.storage_client import StorageFarmBroker, StorageClientConfig  # noqa: E402
from allmydata.util import base32, fileutil                               # noqa: E402
from allmydata.crypto import rsa                                          # noqa: E402
import allmydata.util.cputhreadpool as ctp                                # noqa: E402

from sim import dethash                                                   # noqa: E402
dethash.install()

_POOL = None


def rsa_pool():
    global _POOL
    if _POOL is None:
        p = os.path.join(boot.VERIF, "fixtures", "rsa_pool.bin")
        with open(p, "rb") as f:
            (n,) = struct.unpack(">L", f.read(4))
            _POOL = []
            for i in range(n):
                (ln,) = struct.unpack(">L", f.read(4))
                _POOL.append(f.read(ln))
    return _POOL


class PoolKeyGenerator(object):
    """Stand-in for client.KeyGenerator: 2048-bit keys from the committed pool (DESIGN §2.5).
    Keys are handed out without replacement within a run (a seeded permutation of the pool shared by
    all clients of the grid), so two files never share a key pair."""
    def __init__(self, grid, name):
        self.grid = grid
        self.name = name

    def next_keypair(self):
        pool = rsa_pool()
        g = self.grid
        if g._key_order is None:
            g._key_order = g.ch.shuffle("urandom", "rsa-pool-order", range(len(pool)))
        i = g._key_order[g._keys_issued % len(pool)]
        g._keys_issued += 1
        priv, pub = rsa.create_signing_keypair_from_string(pool[i])
        return pub, priv

    def generate(self):
        return defer.succeed(self.next_keypair())


class SimClient(_Client):
    """The production client with its networking initialisers turned off."""
    def create_log_tub(self):
        pass

    def setup_logging(self):
        pass

    def init_connections(self):
        pass

    def init_introducer_client(self):
        pass

    def init_storage(self, *a, **kw):
        pass

    def init_helper(self):
        pass

    def init_stub_client(self):
        pass

    def init_key_gen(self, *a, **kw):
        pass

    def startService(self):
        return service.MultiService.startService(self)

    def stopService(self):
        return service.MultiService.stopService(self)


class SimServer(object):
    def __init__(self, grid, index, readonly=False, capacity=None, reserved=0):
        self.grid = grid
        self.index = index
        self.name = "s%d" % index
        seed = hashlib.sha256(b"server-%d" % index).digest()
        self.tubid = seed[:20]
        self.pubkey = hashlib.sha256(b"server-key-%d" % index).digest()
        self.serverid = b"v0-" + base32.b2a(self.pubkey)
        self.dir = os.path.join(grid.basedir, self.name)
        self.readonly = readonly
        self.capacity = capacity
        self.reserved = reserved
        self.start()

    def start(self):
        self.ss = StorageServer(self.dir, self.tubid, reserved_space=self.reserved,
                                readonly_storage=self.readonly, clock=R)
        self.ss.bucket_counter.disownServiceParent()
        self.ss.lease_checker.disownServiceParent()
        self.fss = FoolscapStorageServer(self.ss)

    def announcement(self):
        return {"anonymous-storage-FURL": "pb://%s@nowhere/fake-%d" % (base32.b2a(self.tubid).decode("ascii"), self.index),
                "permutation-seed-base32": base32.b2a(self.pubkey).decode("ascii"),
                "nickname": self.name}

    def used(self):
        return fileutil.du(self.ss.sharedir)

    def shares_of(self, si):
        """shnum -> raw container bytes (final shares only)"""
        out = {}
        for shnum, fn in self.ss.get_shares(si):
            with open(fn, "rb") as f:
                out[shnum] = f.read()
        return out

    def share_path(self, si, shnum):
        from allmydata.storage.common import storage_index_to_dir
        return os.path.join(self.ss.sharedir, storage_index_to_dir(si), "%d" % shnum)

    def incoming_files(self):
        return [os.path.join(r, f) for r, d, fs in os.walk(self.ss.incomingdir) for f in fs]


class Grid(object):
    def __init__(self, seed, basedir, netcfg=None):
        self.seed = seed
        self.ch = Chooser(seed)
        self.basedir = basedir
        self.net = SimNet(R, self.ch, netcfg)
        self.servers = []
        self.clients = []
        self._by_dir = {}
        fileutil.get_available_space = self._available_space
        self._orig_urandom = os.urandom
        self.urandom_n = 0
        self.urandom_log = []
        self._key_order = None
        self._keys_issued = 0
        os.urandom = self._urandom
        import random
        random.seed(self.ch.u64("urandom", "python-random"))     # BackoffAgent jitter etc.
        # CPU thread pool (DESIGN §2.4): the shipped synchronous test switch, or the simulated pool
        self.threads = None
        self.set_threads((netcfg or {}).get("threads"))

    def set_threads(self, mode):
        if mode == "async":
            if self.threads is None:
                from sim.threads import SimThreadPool
                self.threads = SimThreadPool(R, self.ch)
            self.threads.install()
        else:
            ctp._DISABLED = True

    # seams -----------------------------------------------------------------------
    def _urandom(self, n):
        self.urandom_n += 1
        b = self.ch.bytes("urandom", ("os.urandom", self.urandom_n), n)
        self.urandom_log.append(b)
        return b

    def _available_space(self, whichdir, reserved_space):
        for s in self.servers:
            if whichdir == s.dir or whichdir.startswith(s.dir + os.sep):
                if s.capacity is None:
                    return 2 ** 40
                return max(0, s.capacity - s.used() - reserved_space)
        return 2 ** 40

    def close(self):
        os.urandom = self._orig_urandom

    # topology ---------------------------------------------------------------------
    def add_server(self, **kw):
        s = SimServer(self, len(self.servers), **kw)
        self.servers.append(s)
        return s

    def add_client(self, k=3, happy=7, n=10, segsize=None, convergence=None, connect=True, extra_cfg="", fmt=None):
        idx = len(self.clients)
        name = "c%d" % idx
        cdir = os.path.join(self.basedir, name)
        os.makedirs(os.path.join(cdir, "private"))
        cfg = "[node]\nnickname = %s\n[client]\nshares.needed = %d\nshares.happy = %d\nshares.total = %d\n" % (name, k, happy, n)
        if segsize is not None:
            cfg += "shares._max_immutable_segment_size_for_testing = %d\n" % segsize
        if fmt:
            cfg += "mutable.format = %s\n" % fmt
        cfg += extra_cfg
        with open(os.path.join(cdir, "tahoe.cfg"), "w") as f:
            f.write(cfg)
        if convergence is not None:
            with open(os.path.join(cdir, "private", "convergence"), "wb") as f:
                f.write(base32.b2a(convergence) + b"\n")
        config = read_config(cdir, "client.port")
        sb = StorageFarmBroker(True, None, config, StorageClientConfig.from_node_config(config))
        prev = R.current_node
        c = SimClient(config, main_tub=None, i2p_provider=None, tor_provider=None,
                      introducer_clients=[], storage_farm_broker=sb)
        c.sim_name = name
        c.sim_dir = cdir
        c._key_generator = PoolKeyGenerator(self, name)
        c.nodemaker.key_generator = c._key_generator
        # the CPU usage monitor polls every 60 s for ever; it would mask quiescence (DESIGN §2.1)
        c.stats_provider.cpu_monitor.disownServiceParent()
        c.startService()
        self.clients.append(c)
        if connect:
            for s in self.servers:
                self.connect(c, s)
        return c

    def connect(self, c, s):
        ref = self.net.ref(c.sim_name, s.name, s.fss)
        ref.version = s.fss.remote_get_version()
        c.storage_broker.test_add_rref(s.serverid, ref, s.announcement())
        ns = c.storage_broker.servers[s.serverid]
        ref.notifyOnDisconnect(ns._lost)
        return ns

    def reconnect(self, c, s):
        """heal: a new reference, as a foolscap reconnector would deliver."""
        self.net.heal(c.sim_name, s.name)
        ref = self.net.ref(c.sim_name, s.name, s.fss)
        ref.version = s.fss.remote_get_version()
        ns = c.storage_broker.servers[s.serverid]
        ns._got_versioned_service(ref, None)

    def server_by_name(self, name):
        return [s for s in self.servers if s.name == name][0]


def run(d, max_events=400_000):
    """Drive the simulation until Deferred d fires -> ('ok', value) / ('err', Failure) / ('hung', None)."""
    return R.run_deferred(d, max_events)


def settle(max_events=400_000):
    """Drain every pending event (all timers fire)."""
    return R.run_until(None, max_events)
