"""dirsim — directory properties (C18-C21) as invariants of one stateful machine over real
DirectoryNodes on gridsim: a write-cap client edits, a read-cap client observes (DESIGN §4 C18-C21)."""
import hashlib
import json
import os
import tempfile
import unicodedata

from engines import gridsim, mutsim
from engines.gridsim import R, Grid, run, settle, EPOCH
from engines.storesim import pat_bytes
from sim.choice import Chooser
from sim.reactor import EventCap

from twisted.internet import defer
from twisted.python.failure import Failure

from allmydata import dirnode as dirnode_mod, uri as uri_mod
from allmydata.dirnode import ONLY_FILES
from allmydata.immutable.upload import Data
from allmydata.mutable.publish import MutableData
from allmydata.interfaces import (MustNotBeUnknownRWError, ExistingChildError, NoSuchChildError, ChildOfWrongTypeError, MustBeDeepImmutableError,
                                  MustBeReadonlyError, SDMF_VERSION, MDMF_VERSION, IDirectoryNode, IFileNode)
from allmydata.unknown import UnknownNode
from allmydata.monitor import Monitor

NAMES = ["a", "b", "c", "é", "é", "Å", "Å", "x y", "日本", "z" * 40, "ẛ̣", "ẛ̣̇"]
_BASES = ["a", "e", "o", "A", "E", "u", "s", "\u017f", "n", "c", "i", "\u1100", "\u0041", "\u00e9", "\u00c5", "\u1e9b"]
_MARKS = ["\u0300", "\u0300", "\u0301", "\u0302", "\u0303", "\u0304", "\u0307", "\u0308", "\u030a", "\u0323", "\u0327", "\u031b", "\u1161", "\u11a8"]


def draw_name(ch, cat, label):
    """A child name: one of a few fixed ones (so that operations collide on names) or a drawn composition of base letters and
    combining marks (every mark the NFC quick-check treats specially: U+0300 itself, marks that reorder, Hangul jamo), in
    composed or decomposed spelling."""
    if ch.chance(cat, ("name-hot",) + tuple(label), 0.35):
        # few names, so that operations meet on them -- one of them in both of its spellings
        return ch.pick(cat, ("name-h",) + tuple(label), ["a", "b", "c", "\u00e9", "e\u0301"])
    if ch.chance(cat, ("name-fixed",) + tuple(label), 0.45):
        return ch.pick(cat, ("name",) + tuple(label), NAMES)
    out = ""
    for u in range(ch.randint(cat, ("name-units",) + tuple(label), 1, 3)):
        out += ch.pick(cat, ("name-base", u) + tuple(label), _BASES)
        for m in range(ch.pick(cat, ("name-nmarks", u) + tuple(label), [0, 1, 1, 2])):
            out += ch.pick(cat, ("name-mark", u, m) + tuple(label), _MARKS)
    form = ch.pick(cat, ("name-form",) + tuple(label), ["asis", "asis", "NFD", "NFC"])
    return out if form == "asis" else unicodedata.normalize(form, out)


def split_netstrings(b):
    out, i = [], 0
    while i < len(b):
        j = b.index(b":", i)
        ln = int(b[i:j])
        if b[j + 1 + ln:j + 2 + ln] != b",":
            raise ValueError("bad netstring")
        out.append(b[j + 1:j + 1 + ln])
        i = j + 2 + ln
    return out


def norm(n):
    return unicodedata.normalize("NFC", n)


def err_name(f):
    return f.type.__name__ if isinstance(f, Failure) else type(f).__name__


def gen_dir(seed, tier, focus):
    ch = Chooser(seed)
    W = "workload"
    cfg = {"k": ch.pick("config", "k", [1, 1, 2]), "n": ch.pick("config", "n", [2, 3]), "nservers": ch.randint("config", "ns", 3, 5),
           "knobs": {"mseg": ch.pick("config", "mseg", [64, 256, 128 * 1024])},
           "net": {"threads": ch.pick("config", "threads", ["sync", "sync", "async"]), "lat_profile": ch.pick("config", "lat", ["uniform", "fifo", "heavy"]), "jitter": ch.pick("config", "jit", [0.0005, 0.05]), "base_lat": 0.001, "batch": ch.pick("config", "batch", [0, 0, 0, 0.001, 0.02, 0.3])}}
    nops = ch.randint(W, "nops", 4, 30 if focus in ("C20", "C19") else 18)
    ops = [["mkdir", ch.pick(W, "kind0", ["sdmf", "mdmf"])]]
    OBJ = ["lit", "lit2", "chk", "ssk", "mdmf", "dir0", "dir1", "dir2", "dir0-ro", "ssk-ro", "unknown", "unknown-ro", "unknown-imm", "immdir"]
    if focus in ("C18", "C19", "C20"):
        OBJ = OBJ + ["unknown-rw-only"]
    if focus == "C21":
        # traversal is about the shape of the graph: more directories, linked from several places, at several depths,
        # by write-cap and by read-cap
        ops += [["mkdir", ch.pick(W, "kind1", ["sdmf", "mdmf"])], ["mkdir", ch.pick(W, "kind2", ["sdmf", "mdmf"])]]
        OBJ = OBJ + ["dir0", "dir1", "dir2", "dir0-ro", "dir1-ro", "dir2-ro"] * 2 + ["lit0", "lit0", "chk", "ssk"]
    for i in range(nops):
        kind = ch.weighted(W, ("kind", i), [("add", 8), ("delete", 3), ("move", 3), ("setmd", 2), ("mkdir", 1.2), ("advance", 1.5),
                                            ("subdir", 1.5), ("addfile", 1.5), ("immdir", 0.8 if focus in ("C19", "C20", "C18") else 0.3),
                                            ("setchildren", 1.0)])
        d = ch.randrange(W, ("dir", i), 3)
        name = draw_name(ch, W, ("n", i))
        if kind == "add":
            ops.append(["add", d, name, ch.pick(W, ("obj", i), OBJ), ch.pick(W, ("ow", i), [True, True, False, "only-files"]),
                        ch.pick(W, ("md", i), [None, None, {}, {"k": "v"}, {"nested": {"a": [1, 2, {"b": None}], "u": "ü"}}, {"no-write": True},
                                               {"tahoe": {"linkcrtime": 1}}]),
                        ch.pick(W, ("via", i), ["set_uri", "set_node"])])
        elif kind == "setchildren":
            ents = []
            for j in range(ch.randint(W, ("nents", i), 1, 4)):
                ents.append([draw_name(ch, W, ("s", i, j)), ch.pick(W, ("sobj", i, j), OBJ), ch.pick(W, ("smd", i, j), [None, {}, {"j": j}])])
            ops.append(["setchildren", d, ents, ch.pick(W, ("ow", i), [True, False]), ch.pick(W, ("scvia", i), ["set_children", "set_nodes"])])
        elif kind == "delete":
            ops.append(["delete", d, name, ch.chance(W, ("mx", i), 0.7), ch.pick(W, ("must", i), [None, None, "file", "dir"])])
        elif kind == "move":
            ops.append(["move", d, name, ch.randrange(W, ("d2", i), 3), (None if ch.chance(W, ("n2-none", i), 0.25) else draw_name(ch, W, ("n2", i))), ch.pick(W, ("ow", i), [True, False, "only-files"])])
        elif kind == "setmd":
            ops.append(["setmd", d, name, ch.pick(W, ("md", i), [{}, {"x": 1}, {"no-write": True}, {"deep": {"l": [1, [2, [3]]]}}])])
        elif kind == "mkdir":
            ops.append(["mkdir", ch.pick(W, ("mkind", i), ["sdmf", "mdmf"])])
        elif kind == "advance":
            ops.append(["advance", ch.pick(W, ("dt", i), [1, 60, 86400])])
        elif kind == "subdir":
            ops.append(["subdir", d, name, ch.pick(W, ("skind", i), ["sdmf", "mdmf", "imm"]), ch.pick(W, ("ow", i), [True, False])])
        elif kind == "addfile":
            ops.append(["addfile", d, name, ch.pick(W, ("fsize", i), [0, 10, 55, 56, 200]), ch.randint(W, ("fpat", i), 1, 1 << 30), ch.pick(W, ("ow", i), [True, False])])
        elif kind == "immdir":
            ops.append(["immdir", [[draw_name(ch, W, ("i", i, j)), ch.pick(W, ("iobj", i, j), ["lit", "chk", "ssk", "ssk-ro", "dir0", "dir0-ro", "unknown-imm", "unknown", "immdir", "lit2"])]
                                   for j in range(ch.randint(W, ("inents", i), 0, 4))]])
    if focus == "C20":
        # directed rename/move situations (the random stream rarely lines them up): a move that must be refused because the
        # destination name is taken (in another directory and in the same one), and a rename between two spellings of one name
        for j in range(ch.randint(W, "ndirected", 0, 2)):
            at = ch.randint(W, ("directed-at", j), 3, len(ops))
            d1, d2 = ch.randrange(W, ("directed-d1", j), 3), ch.randrange(W, ("directed-d2", j), 3)
            nm_ = ch.pick(W, ("directed-name", j), ["a", "b", "e\u0301", "\u00e9", "A\u030a", "o\u0300"])
            what = ch.pick(W, ("directed-what", j), ["refused-move", "refused-move", "respell", "respell-dest"])
            if what == "refused-move":
                nm2 = ch.pick(W, ("directed-name2", j), [nm_, "c", "b"])
                seq = [["add", d1, nm_, ch.pick(W, ("directed-o1", j), ["chk", "ssk", "dir1", "lit"]), True, None, "set_uri"],
                       ["add", d2, nm2, ch.pick(W, ("directed-o2", j), ["chk", "dir2", "dir0", "lit2"]), True, None, "set_uri"],
                       ["move", d1, nm_, d2, nm2, ch.pick(W, ("directed-ow", j), [False, False, "only-files"])]]
            else:
                other = unicodedata.normalize("NFD", nm_) if unicodedata.normalize("NFC", nm_) == nm_ else unicodedata.normalize("NFC", nm_)
                if other == nm_:
                    other = nm_ + "\u0301"
                seq = [["add", d1, nm_, ch.pick(W, ("directed-o1", j), ["chk", "ssk", "dir1", "lit"]), True, None, "set_uri"],
                       ["move", d1, nm_, d1 if what == "respell" else d2, other, ch.pick(W, ("directed-ow", j), [True, False, "only-files"])]]
            ops[at:at] = seq
    if focus in ("C17", "C19"):
        # a new directory created from another directory's listing (what "cp -r" and the web API's t=mkdir-with-children do)
        for j in range(ch.randint(W, "ncopydir", 1 if focus == "C17" else 0, 2)):
            ops.insert(ch.randint(W, ("copydir-at", j), 2, len(ops)), ["copydir", ch.randrange(W, ("copydir-src", j), 3), ch.pick(W, ("copydir-kind", j), ["sdmf", "mdmf"])])
    if focus in ("C18",) and ch.chance("config", "blacklist", 0.3):
        # the writing gateway has an access blacklist naming some of the mutable files: it wraps them (ProhibitedNode) whenever
        # it builds a node for them, also when they are linked into a directory
        cfg["blacklist"] = ch.pick("config", "blacklisted", [["ssk"], ["mdmf"], ["ssk", "mdmf"]])
    if focus == "C21":
        ops.append(["traverse", ch.randrange(W, "troot", 3), ch.pick(W, "tkind", ["manifest", "stats", "check"])])
        ops.append(["traverse", ch.randrange(W, "troot2", 3), ch.pick(W, "tkind2", ["manifest", "stats", "check"])])
        if ch.chance("faults", "traverse-read-fault", 0.35):
            ops.append(["traverse", ch.randrange(W, "troot3", 3), ch.pick(W, "tkind3", ["manifest", "stats", "check"]), ch.randint("faults", "traverse-fault-nth", 1, 9)])
    return {"engine": "dirsim", "focus": focus, "seed": seed, "cfg": cfg, "ops": ops, "faults": []}


def model_update_metadata(old_md, new_md, now):
    """Reference for the documented timestamp rules: user metadata replaced when given, 'tahoe'
    sub-dict preserved, linkcrtime set once, linkmotime = now."""
    md = dict(old_md) if old_md is not None else {}
    if new_md is not None:
        nm = {k: v for k, v in new_md.items() if k != "tahoe"}
        if "tahoe" in md:
            nm["tahoe"] = md["tahoe"]
        md = nm
    t = dict(md.get("tahoe", {}))
    if "linkcrtime" not in t:
        t["linkcrtime"] = ("window", now)
    t["linkmotime"] = ("window", now)
    md["tahoe"] = t
    return md


class World(object):
    def __init__(self, g, w, rd, cfg, bad, probe):
        self.g, self.w, self.rd, self.cfg, self.bad, self.probe = g, w, rd, cfg, bad, probe
        self.dirs = []        # {"rw","ro","kind","children": {name: {"rw","ro","md","obj"}}, "node"}
        self.objs = {}        # objname -> (rw, ro)
        self.imm_dirs = []    # caps of immutable dirs created
        self.anon_dirs = {}   # cap -> verify key, for (empty) sub-directories created by create_subdirectory
        self.all_write_caps = set()

    def ensure_objects(self):
        """files of every kind, created once through the real client"""
        w = self.w
        if self.objs:
            return
        lit = b"URI:LIT:" + b"krugkidfnzsc4"            # small literal
        self.objs["lit"] = (None, lit)
        self.objs["lit0"] = (None, b"URI:LIT:")           # the empty file
        st, r = run(w.upload(Data(b"literal two", convergence=b"")))
        self.objs["lit2"] = (None, r.get_uri())
        st, r = run(w.upload(Data(pat_bytes(5, 300), convergence=b"")))
        self.objs["chk"] = (None, r.get_uri())
        st, n = run(w.create_mutable_file(MutableData(b"ssk contents"), version=SDMF_VERSION))
        self.objs["ssk"] = (n.get_uri(), n.get_readonly_uri())
        self.objs["ssk-ro"] = (None, n.get_readonly_uri())
        st, n = run(w.create_mutable_file(MutableData(b"mdmf contents"), version=MDMF_VERSION))
        self.objs["mdmf"] = (n.get_uri(), n.get_readonly_uri())
        self.objs["unknown"] = (b"lafs://from_the_future_rw", b"lafs://from_the_future_ro")
        self.objs["unknown-ro"] = (None, b"ro.lafs://from_the_future_ro2")
        # a cap of unknown format offered as a write cap with no read cap to go with it: nothing can be stored for a reader
        self.objs["unknown-rw-only"] = (b"lafs://from_the_future_rw_only", None)
        self.objs["unknown-imm"] = (None, b"imm.lafs://from_the_future_imm")
        settle(200_000)
        for nm, (rw, ro) in self.objs.items():
            if rw:
                self.all_write_caps.add(rw)

    def caps_of(self, objname):
        if objname.startswith("dir"):
            idx = int(objname[3])
            if idx >= len(self.dirs):
                return None
            d = self.dirs[idx]
            if objname.endswith("-ro"):
                return (None, d["ro"])
            return (d["rw"], d["ro"])
        if objname == "immdir":
            if not self.imm_dirs:
                return None
            return (None, self.imm_dirs[-1]["ro"])
        return self.objs.get(objname)

    def is_dir_cap(self, cap):
        return cap is not None and (b":DIR2" in cap)

    def is_imm_ok(self, objname):
        """allowed in an immutable directory?"""
        return objname in ("lit", "lit2", "chk", "immdir", "unknown-imm")


def exec_dir(case):
    from sim.runner import child_tmp
    cfg = case["cfg"]
    focus = case["focus"]
    base = tempfile.mkdtemp(dir=child_tmp())
    viol, probes = [], {}

    def probe(nm, c=1):
        probes[nm] = probes.get(nm, 0) + c

    def bad(prop, clause, detail, sig=None):
        viol.append({"clause": "%s.%s" % (prop, clause), "sig": sig or "%s.%s" % (prop, clause), "detail": detail})

    R.reset_sim()
    mutsim.apply_knobs(cfg["knobs"])
    from engines import immsim as _immsim
    _immsim.apply_knobs({})        # (a check may run other engines in the same process: their knobs must not carry over)
    g = Grid(case["seed"], base, cfg["net"])
    try:
        for i in range(cfg["nservers"]):
            g.add_server()
        w = g.add_client(k=cfg["k"], happy=1, n=cfg["n"])
        rd = g.add_client(k=cfg["k"], happy=1, n=cfg["n"])
        W = World(g, w, rd, cfg, bad, probe)
        W.ensure_objects()
        if cfg.get("blacklist"):
            from allmydata.util import base32 as b32_
            with open(w.blacklist.blacklist_fn, "wb") as f_:
                for on_ in cfg["blacklist"]:
                    si_ = w.create_node_from_uri(W.objs[on_][0]).get_storage_index()
                    f_.write(b32_.b2a(si_) + b" prohibited for this run\n")
            w.blacklist.last_mtime = None
            probe("writer-blacklist-entries", len(cfg["blacklist"]))

        def drive(d, what):
            try:
                st, res = run(d, 300_000)
            except EventCap:
                bad(focus, "livelock", "%s never quiesces" % what)
                return "cap", None
            if st == "hung":
                bad(focus, "hung", "%s never completed" % what, sig="%s.hung" % focus)
            return st, res

        def dnode(i, client=None):
            d = W.dirs[i]
            return (client or w).create_node_from_uri(d["rw"])

        def expect_error(st, res, classes, what):
            if MustNotBeUnknownRWError in classes and st == "ok":
                bad("C18", "unknown-write-cap-stored", "%s accepted a capability of unknown format given as a write cap with no read cap: it can only be "
                    "stored where read-cap holders see it" % what)
            if st != "err" or not res.check(*classes):
                bad("C20", "expected-error", "%s should have failed with %s but %s%s" % (
                    what, "/".join(c.__name__ for c in classes), st, (" " + err_name(res)) if st == "err" else ""),
                    sig="C20.expected-error." + what.split("(")[0])
                return False
            return True

        def child_kind(entry):
            cap = entry["rw"] or entry["ro"]
            if cap is None:
                return "unknown"
            core = cap
            for pfx in (b"ro.", b"imm."):
                if core.startswith(pfx):
                    core = core[len(pfx):]
            if core.startswith(b"URI:DIR2"):
                return "dir"
            if core.startswith(b"URI:"):
                return "file"
            return "unknown"

        def apply_add(didx, entries, overwrite, now, validate_first=True):
            """model of Adder.modify over several entries (all-or-nothing). returns error class or None"""
            d = W.dirs[didx]
            new = {k_: dict(v) for k_, v in d["children"].items()}
            # (given caps, the nodes of all entries are built and validated before the directory is looked at; given nodes,
            # the entries are examined one by one in the order given: see the callers)
            if validate_first:
                for (name, caps, md) in entries:
                    if caps[0] is not None and caps[1] is None and not caps[0].startswith((b"URI:", b"ro.", b"imm.")):
                        return MustNotBeUnknownRWError
            for (name, caps, md) in entries:
                nname = norm(name)
                old_md = None
                if caps[0] is not None and caps[1] is None and not caps[0].startswith((b"URI:", b"ro.", b"imm.")):
                    return MustNotBeUnknownRWError
                if nname in new:
                    if overwrite is False:
                        return ExistingChildError
                    if overwrite == "only-files" and child_kind(new[nname]) == "dir":
                        return ExistingChildError
                    old_md = new[nname]["md"]
                nmd = model_update_metadata(old_md, md, now)
                rw, ro = caps
                if nmd.get("no-write", False):
                    rw = None
                new[nname] = {"rw": rw, "ro": ro, "md": nmd}
            d["children"] = new
            return None

        def compare_listing(didx, why):
            """C20/C19: listing through a fresh node on the read-only client and on the writer equals the model."""
            d = W.dirs[didx]
            # third view: the read-cap presented to the *writer's* client (one gateway serving both cap holders) while
            # the nodes it obtained through the write-cap are still alive
            for (client, capkey) in ((rd, "ro"), (w, "rw"), (w, "ro")):
                st, children = drive(client.create_node_from_uri(d[capkey]).list(), "list")
                if st == "ok" and client is w and capkey == "rw":
                    W.keepalive = (getattr(W, "keepalive", []) + [nd_ for (nd_, md_) in children.values()])[-60:]
                if st != "ok":
                    if st == "err":
                        bad("C20", "list-failed", "listing dir %d through the %s cap failed after %s: %s" % (didx, capkey, why, res_tb(children)),
                            sig="C20.list-failed." + err_name(children))
                    return
                got = {}
                for name, (node, md) in children.items():
                    got[name] = {"rw": node.get_write_uri(), "ro": node.get_readonly_uri(), "md": md, "node": node}
                want = d["children"]
                if set(got) != set(want):
                    if set(norm(n_) for n_ in got) == set(want):
                        bad("C19", "names-not-normalized", "after %s dir %d lists the names %r; the normalized (NFC) names are %r" % (
                            why, didx, sorted(set(got) - set(want)), sorted(set(want) - set(got))))
                    bad("C20", "names", "after %s dir %d lists names %r, model has %r" % (why, didx, sorted(got), sorted(want)))
                    return
                for name, e in want.items():
                    gotc = got[name]
                    want_rw = e["rw"] if capkey == "rw" else None
                    # unknown caps keep their strings; a read-only view shows the ro cap (with ro. prefix for unknowns)
                    if capkey == "rw":
                        if gotc["rw"] != want_rw:
                            bad("C19", "write-cap", "child %r of dir %d: write-cap through the write-cap view is %r, stored %r (after %s)" % (name, didx, gotc["rw"], want_rw, why))
                    else:
                        if gotc["rw"] is not None:
                            bad("C18", "write-cap-through-readonly", "child %r obtained through the read-only directory cap exposes a write-cap (after %s)" % (name, why))
                        nd = gotc["node"]
                        if not isinstance(nd, UnknownNode) and not nd.is_readonly():
                            bad("C18", "child-not-readonly", "child %r obtained through the read-only directory cap is not read-only" % (name,))
                    ro_want = e["ro"]
                    if ro_want is not None and gotc["ro"] is not None:
                        g_ro, w_ro = gotc["ro"], ro_want
                        # an unknown cap stored without a prefix is shown with "ro." (documented); "imm." is part of the
                        # capability (it asserts deep immutability) and has to come back unchanged
                        for pfx in (b"ro.",):
                            if g_ro.startswith(pfx):
                                g_ro = g_ro[len(pfx):]
                            if w_ro.startswith(pfx):
                                w_ro = w_ro[len(pfx):]
                        if g_ro != w_ro:
                            bad("C19", "read-cap", "child %r of dir %d: read-cap %r, stored %r (after %s)" % (name, didx, gotc["ro"], ro_want, why))
                    gmd = gotc["md"]
                    if {k_: v for k_, v in gmd.items() if k_ != "tahoe"} != {k_: v for k_, v in e["md"].items() if k_ != "tahoe"}:
                        bad("C19", "metadata", "child %r of dir %d: metadata %r, model %r (after %s)" % (name, didx, gmd, e["md"], why))
                    gt, wt = gmd.get("tahoe", {}), e["md"].get("tahoe", {})
                    # a value of ("window", t0) in the model means "set during the operation that started at t0":
                    # the edit runs after the servermap update, so its clock reading lies in [t0, now]
                    for fld in ("linkcrtime", "linkmotime"):
                        wv, gv = wt.get(fld), gt.get(fld)
                        if isinstance(wv, (tuple, list)) and len(wv) == 2 and wv[0] == "window":
                            if not (isinstance(gv, (int, float)) and wv[1] <= gv <= R.seconds() + 1e-6):
                                bad("C20", fld, "child %r of dir %d: %s %r is not within the operation's time window [%r, %r] (after %s)" % (
                                    name, didx, fld, gv, wv[1], R.seconds(), why))
                            else:
                                wt[fld] = gv          # learn the exact instant; from now on it must not change unless the model says so
                        elif gv != wv:
                            bad("C20", fld, "child %r of dir %d: %s %r, model %r (after %s)" % (name, didx, fld, gv, wv, why))
            probe("listing-compared")

        def res_tb(f):
            return f.getTraceback()[-500:] if isinstance(f, Failure) else repr(f)

        def check_child_cap_keys(dircap_rw, children_rw, what):
            """C17: every child's write cap is sealed under H(tag, salt, writekey of THIS directory), salt = H(tag, child write cap)
            (hashlib + AES only; the directory's writekey is read out of its own write cap)"""
            from cryptography.hazmat.primitives.ciphers import Cipher, algorithms, modes
            from oracles import refhash
            from allmydata.util import base32 as b32_
            try:
                writekey = b32_.a2b(dircap_rw.split(b":")[2])
            except Exception:
                return
            st, raw = drive(rd.create_node_from_uri(dircap_rw)._node.download_best_version(), "raw dir download")
            if st != "ok":
                return
            try:
                ents = [split_netstrings(e_) for e_ in split_netstrings(raw)]
            except ValueError:
                return
            for parts in ents:
                if len(parts) != 4:
                    continue
                nm_ = parts[0].decode("utf-8")
                rw_ = children_rw.get(nm_)
                if not rw_ or len(parts[2]) < 48:
                    continue
                salt, ct = parts[2][:16], parts[2][16:-32]
                if salt != refhash.dirnode_child_salt(rw_):
                    bad("C17", "child-cap-salt", "%s: child %r: stored salt is not H(tag, write cap)" % (what, nm_))
                key = refhash.dirnode_child_capkey(salt, writekey)
                dec = Cipher(algorithms.AES(key), modes.CTR(b"\x00" * 16)).decryptor()
                if dec.update(ct) + dec.finalize() != rw_:
                    bad("C17", "child-cap-key", "%s: the stored write cap of child %r does not decrypt under H(tag, salt, this directory's writekey): "
                        "it cannot be recovered from this directory's write cap" % (what, nm_))
                probe("c17-child-cap-key-checked")

        def check_c18_plaintext(didx):
            """the directory bytes a read-cap holder can decrypt, and every byte on every server, contain no child write-cap"""
            d = W.dirs[didx]
            st, raw = drive(rd.create_node_from_uri(d["ro"])._node.download_best_version(), "raw dir download")
            if st != "ok":
                return
            for name, e in d["children"].items():
                if e["rw"] and e["rw"] in raw:
                    bad("C18", "plaintext-leaks-write-cap", "directory contents readable with the read-cap contain the write-cap of child %r" % (name,))
            # a read-cap holder who knows ONE child's write-cap (say a file they contributed) must not be able to derive
            # another child's: the encrypted write-cap fields must not share a keystream
            fields = {}
            try:
                for ent in split_netstrings(raw):
                    parts = split_netstrings(ent)
                    if len(parts) == 4 and len(parts[2]) > 48:
                        fields[parts[0].decode("utf-8")] = parts[2][16:-32]
            except ValueError:
                fields = {}
            known = [(nm_, e_["rw"], fields[nm_]) for nm_, e_ in d["children"].items() if e_["rw"] and nm_ in fields]
            for i_ in range(len(known)):
                for j_ in range(len(known)):
                    (n1, rw1, c1), (n2, rw2, c2) = known[i_], known[j_]
                    m_ = min(len(c1), len(c2), len(rw1), len(rw2))
                    if i_ != j_ and rw1 != rw2 and m_ >= 16:
                        guess = bytes(a ^ b ^ c for a, b, c in zip(c2[:m_], c1[:m_], rw1[:m_]))
                        if guess == rw2[:m_]:
                            bad("C18", "write-cap-derivable", "knowing the write-cap of child %r, a read-cap holder recovers the first %d bytes of the write-cap "
                                "of child %r from the directory contents (the encrypted write-cap fields share a keystream)" % (n1, m_, n2))
                            break
            if len(known) >= 2:
                probe("c18-keystream-pairs-checked")
            for s in g.servers:
                for root, _d, files in os.walk(s.ss.sharedir):
                    for fn in files:
                        with open(os.path.join(root, fn), "rb") as f:
                            blob = f.read()
                        for wc in W.all_write_caps:
                            if wc in blob:
                                bad("C18", "server-sees-write-cap", "a share on %s contains a write-cap in cleartext" % s.name)
                                return
            probe("c18-plaintext-scanned")

        for opi, op in enumerate(case["ops"]):
            kind = op[0]
            now = R.seconds()
            if kind == "mkdir":
                if len(W.dirs) >= 3:
                    continue
                ver = MDMF_VERSION if op[1] == "mdmf" else SDMF_VERSION
                st, n = drive(w.create_dirnode(version=ver), "create_dirnode")
                if st != "ok":
                    break
                W.dirs.append({"rw": n.get_uri(), "ro": n.get_readonly_uri(), "kind": op[1], "children": {}})
                W.all_write_caps.add(n.get_uri())
                probe("mkdir-" + op[1])
                continue
            if kind == "advance":
                R.advance(op[1])
                continue
            if kind == "copydir":
                if op[1] >= len(W.dirs):
                    continue
                src = W.dirs[op[1]]
                st, listing = drive(dnode(op[1]).list(), "list for copydir")
                if st != "ok":
                    continue
                ver = MDMF_VERSION if op[2] == "mdmf" else SDMF_VERSION
                st, n2_ = drive(w.create_dirnode(initial_children=listing, version=ver), "create_dirnode(initial_children=listing)")
                if st != "ok":
                    probe("copydir-" + st)
                    continue
                probe("copydir-ok")
                W.all_write_caps.add(n2_.get_uri())
                want_rw = {nm_: e_["rw"] for nm_, e_ in src["children"].items()}
                check_child_cap_keys(n2_.get_uri(), want_rw, "directory created from the listing of dir %d" % op[1])
                # and through the API: a fresh gateway, the new directory's write cap
                st, l2 = drive(rd.create_node_from_uri(n2_.get_uri()).list(), "list copy")
                if st == "ok":
                    for nm_, (nd_, md_) in l2.items():
                        if nm_ in want_rw and nd_.get_write_uri() != want_rw[nm_]:
                            bad("C19", "write-cap", "child %r of a directory created from the listing of dir %d: write cap through the new directory's write cap is %r, stored %r" % (
                                nm_, op[1], nd_.get_write_uri(), want_rw[nm_]))
                            bad("C17", "child-cap-unreachable", "child %r of a directory created from another directory's listing: the write cap read back through the new "
                                "directory's own write cap is %r, not %r" % (nm_, nd_.get_write_uri(), want_rw[nm_]))
                            break
                continue
            if kind == "immdir":
                ents = {}
                legal = True
                model_children = {}
                final_obj = {}
                for (name, objname) in op[1]:
                    caps = W.caps_of(objname)
                    if caps is None:
                        continue
                    node = w.create_node_from_uri(caps[0], caps[1])
                    ents[name] = (node, {})
                    final_obj[name] = objname
                # (a later entry with the same name replaces the earlier one in the dict handed to the API)
                if len(set(norm(n_) for n_ in ents)) != len(ents):
                    continue
                legal = all(W.is_imm_ok(o_) for o_ in final_obj.values())
                op = [op[0], [[n_, o_] for n_, o_ in final_obj.items()]]
                try:
                    st, res = drive(w.create_immutable_dirnode(ents), "create_immutable_dirnode")
                except MustBeDeepImmutableError as e:
                    st, res = "err", Failure(e)
                except Exception as e:
                    st, res = "err", Failure(e)
                if not legal:
                    probe("immdir-illegal")
                    if st == "ok":
                        bad("C19", "immutable-dir-accepted-mutable-child", "create_immutable_directory accepted children %r" % (op[1],))
                    elif not res.check(MustBeDeepImmutableError):
                        bad("C19", "immutable-dir-wrong-error", "immutable dir with mutable child failed with %s" % err_name(res))
                else:
                    if st == "ok":
                        probe("immdir-created")
                        W.imm_dirs.append({"ro": res.get_uri(), "children": dict((norm(nm_), objname) for (nm_, objname) in op[1] if W.caps_of(objname))})
                        st2, ch2 = drive(rd.create_node_from_uri(res.get_uri()).list(), "list immdir")
                        if st2 == "ok":
                            if set(ch2) != set(W.imm_dirs[-1]["children"]):
                                bad("C19", "immdir-names", "immutable directory lists %r, created with %r" % (sorted(ch2), sorted(W.imm_dirs[-1]["children"])))
                            for nm_, (nd, md) in ch2.items():
                                if nd.get_write_uri() is not None:
                                    bad("C18", "immdir-child-writable", "child %r of an immutable directory has a write-cap" % nm_)
                    elif st == "err" and ents:
                        bad("C19", "immdir-failed", "legal immutable directory creation failed: %s" % res_tb(res), sig="C19.immdir-failed." + err_name(res))
                continue
            if kind == "traverse":
                continue   # handled after the loop
            didx = op[1]
            if didx >= len(W.dirs):
                continue
            d = W.dirs[didx]
            node = dnode(didx)
            if kind == "add":
                _, _, name, objname, ow, md, via = op
                caps = W.caps_of(objname)
                if caps is None:
                    continue
                owarg = ONLY_FILES if ow == "only-files" else ow
                if via == "set_uri":
                    dd = defer.maybeDeferred(node.set_uri, name, caps[0], caps[1], metadata=md, overwrite=owarg)
                else:
                    child = w.create_node_from_uri(caps[0], caps[1])
                    dd = defer.maybeDeferred(node.set_node, name, child, metadata=md, overwrite=owarg)
                st, res = drive(dd, "add")
                before = {k_: dict(v) for k_, v in d["children"].items()}
                err = apply_add(didx, [(name, caps, md)], ow, now)
                if err is not None:
                    d["children"] = before
                    probe("add-refused")
                    expect_error(st, res, (err,), "add(overwrite=%r)" % (ow,))
                elif st != "ok":
                    d["children"] = before
                    bad("C20", "add-failed", "add %r=%s (overwrite=%r, md=%r) failed: %s" % (name, objname, ow, md, res_tb(res)), sig="C20.add-failed." + err_name(res))
                else:
                    probe("add-ok-" + objname.split("-")[0])
            elif kind == "setchildren":
                _, _, ents, ow = op[:4]
                sc_via = op[4] if len(op) > 4 else "set_children"
                entries = {}
                mentries = []
                last = {}
                for (name, objname, md) in ents:
                    caps = W.caps_of(objname)
                    if caps is None:
                        continue
                    entries[name] = (caps[0], caps[1], md) if md is not None else (caps[0], caps[1])
                    last[name] = (name, caps, md)
                mentries = [last[n_] for n_ in entries]
                # later entries with an NFC-equal name win in dict order; mirror by normalising the same way
                if len(set(norm(n_) for n_ in entries)) != len(entries):
                    continue
                if sc_via == "set_nodes":
                    # the batch given as node objects (what `tahoe cp` and the deep copy use)
                    nentries = {}
                    for n_, e_ in entries.items():
                        nentries[n_] = (W.w.create_node_from_uri(e_[0], e_[1]), e_[2] if len(e_) > 2 else None)
                    st, res = drive(defer.maybeDeferred(node.set_nodes, nentries, overwrite=ow), "set_nodes")
                    probe("set_nodes")
                else:
                    st, res = drive(defer.maybeDeferred(node.set_children, entries, overwrite=ow), "set_children")
                before = {k_: dict(v) for k_, v in d["children"].items()}
                err = apply_add(didx, [(n_, c_, m_) for (n_, c_, m_) in mentries if n_ in entries], ow, now)
                if err is not None:
                    d["children"] = before
                    # which of two applicable refusals is reported depends on whether caps or ready-made nodes were handed over
                    err_b = apply_add(didx, [(n_, c_, m_) for (n_, c_, m_) in mentries if n_ in entries], ow, now, validate_first=False)
                    d["children"] = before
                    expect_error(st, res, tuple(sorted(set([err, err_b or err]), key=lambda c_: c_.__name__)), "set_children(overwrite=%r)" % (ow,))
                elif st != "ok":
                    d["children"] = before
                    bad("C20", "setchildren-failed", "set_children failed: %s" % res_tb(res), sig="C20.setchildren-failed." + err_name(res))
                else:
                    probe("setchildren-ok")
            elif kind == "addfile":
                _, _, name, size, pat, ow = op
                data = pat_bytes(pat, size)
                st, res = drive(node.add_file(name, Data(data, convergence=b"")), "add_file") if ow else drive(node.add_file(name, Data(data, convergence=b""), overwrite=False), "add_file")
                before = {k_: dict(v) for k_, v in d["children"].items()}
                if norm(name) in d["children"] and not ow:
                    expect_error(st, res, (ExistingChildError,), "add_file(overwrite=False)")
                elif st == "ok":
                    apply_add(didx, [(name, (None, res.get_uri()), None)], True, now)
                    probe("addfile-ok")
                else:
                    bad("C20", "addfile-failed", "add_file failed: %s" % res_tb(res), sig="C20.addfile-failed." + err_name(res))
            elif kind == "subdir":
                _, _, name, skind, ow = op
                kw = {}
                if skind == "imm":
                    kw = {"mutable": False}
                elif skind == "mdmf":
                    kw = {"mutable_version": MDMF_VERSION}
                st, res = drive(node.create_subdirectory(name, overwrite=ow, **kw), "create_subdirectory")
                if norm(name) in d["children"] and not ow:
                    expect_error(st, res, (ExistingChildError,), "create_subdirectory(overwrite=False)")
                elif st == "ok":
                    apply_add(didx, [(name, (res.get_write_uri(), res.get_readonly_uri()), None)], True, now)
                    for c_ in (res.get_write_uri(), res.get_readonly_uri()):
                        if c_:
                            W.anon_dirs[c_] = True
                    if res.get_write_uri():
                        W.all_write_caps.add(res.get_write_uri())
                    probe("subdir-" + skind)
                else:
                    bad("C20", "subdir-failed", "create_subdirectory failed: %s" % res_tb(res), sig="C20.subdir-failed." + err_name(res))
            elif kind == "delete":
                _, _, name, must_exist, must = op
                kw = {"must_exist": must_exist}
                if must == "file":
                    kw["must_be_file"] = True
                if must == "dir":
                    kw["must_be_directory"] = True
                st, res = drive(node.delete(name, **kw), "delete")
                nname = norm(name)
                if nname not in d["children"]:
                    if must_exist:
                        expect_error(st, res, (NoSuchChildError,), "delete(missing)")
                    elif st != "ok":
                        bad("C20", "delete-missing-failed", "delete(must_exist=False) of a missing child failed with %s" % err_name(res))
                else:
                    ck = child_kind(d["children"][nname])
                    if must == "file" and ck == "dir" or must == "dir" and ck == "file":
                        expect_error(st, res, (ChildOfWrongTypeError,), "delete(wrong type)")
                    elif st == "ok":
                        del d["children"][nname]
                        probe("delete-ok")
                    else:
                        bad("C20", "delete-failed", "delete failed: %s" % res_tb(res), sig="C20.delete-failed." + err_name(res))
            elif kind == "setmd":
                _, _, name, md = op
                st, res = drive(node.set_metadata_for(name, md), "set_metadata_for")
                nname = norm(name)
                if nname not in d["children"]:
                    expect_error(st, res, (NoSuchChildError,), "set_metadata_for(missing)")
                elif st == "ok":
                    e = d["children"][nname]
                    e["md"] = model_update_metadata(e["md"], md, now)
                    if e["md"].get("no-write", False):
                        e["rw"] = None
                    probe("setmd-ok")
                else:
                    bad("C20", "setmd-failed", "set_metadata_for failed: %s" % res_tb(res), sig="C20.setmd-failed." + err_name(res))
            elif kind == "move":
                _, _, name, d2idx, n2, ow = op
                if d2idx >= len(W.dirs):
                    continue
                d2 = W.dirs[d2idx]
                owarg = ONLY_FILES if ow == "only-files" else ow
                st, res = drive(node.move_child_to(name, dnode(d2idx), n2, overwrite=owarg), "move_child_to")
                nname = norm(name)
                nn2 = norm(n2) if n2 is not None else nname
                if d2idx == didx and nn2 == nname:
                    if st != "ok":
                        bad("C20", "redundant-move-failed", "moving a child onto itself failed: %s" % err_name(res))
                    probe("move-redundant")
                elif nname not in d["children"]:
                    expect_error(st, res, (NoSuchChildError,), "move(missing)")
                else:
                    src = dict(d["children"][nname])
                    before2 = {k_: dict(v) for k_, v in d2["children"].items()}
                    err = apply_add(d2idx, [(nn2, (src["rw"], src["ro"]), src["md"])], ow, now)
                    if err is not None:
                        d2["children"] = before2
                        probe("move-refused")
                        if expect_error(st, res, (err,), "move(overwrite=%r)" % (ow,)):
                            pass   # the child must still be linked under its old name: checked by the listing comparison
                    elif st == "ok":
                        # same directory object: apply_add above and the delete act on the same map
                        if nname in W.dirs[didx]["children"]:
                            del W.dirs[didx]["children"][nname]
                        probe("move-ok")
                    else:
                        d2["children"] = before2
                        bad("C20", "move-failed", "move_child_to failed: %s" % res_tb(res), sig="C20.move-failed." + err_name(res))
                compare_listing(d2idx, "op %d %r" % (opi, op))
            compare_listing(didx, "op %d %r" % (opi, op))
            if focus == "C18" and opi % 3 == 0:
                check_c18_plaintext(didx)
            if focus == "C17" and opi % 2 == 0:
                check_child_cap_keys(W.dirs[didx]["rw"], {nm_: e_["rw"] for nm_, e_ in W.dirs[didx]["children"].items()}, "dir %d after op %d" % (didx, opi))
            if viol:
                break
        if focus == "C18" and W.dirs and not viol:
            for i in range(len(W.dirs)):
                check_c18_plaintext(i)
            # transitive: walk from the read-only root caps two levels down
            for dd, cl_ in [(dd_, cl__) for dd_ in W.dirs for cl__ in (rd, w)]:
                st, ch1 = drive(cl_.create_node_from_uri(dd["ro"]).list(), "list")
                if st != "ok":
                    continue
                for nm_, (nd, md) in ch1.items():
                    if IDirectoryNode.providedBy(nd):
                        if not nd.is_readonly():
                            bad("C18", "descendant-dir-not-readonly", "sub-directory %r reached through a read-only cap is writeable" % nm_)
                        st2, ch2 = drive(nd.list(), "list level 2")
                        if st2 == "ok":
                            for nm2, (nd2, md2) in ch2.items():
                                if nd2.get_write_uri() is not None or (not isinstance(nd2, UnknownNode) and not nd2.is_readonly()):
                                    bad("C18", "descendant-writable", "descendant %r/%r reached through a read-only cap carries write authority" % (nm_, nm2))
                            probe("c18-level2")
        # ---- C21 deep traversal
        if focus == "C21" and not viol:
            for op in [o for o in case["ops"] if o[0] == "traverse"]:
                _, ridx, tkind = op[:3]
                if ridx >= len(W.dirs):
                    continue
                check_traverse(W, ridx, tkind, drive, bad, probe, op[3] if len(op) > 3 else None)
        return finish(g, viol, probes, case, focus)
    finally:
        g.close()


def reachable(W, ridx):
    """model reachability from dir ridx: {identity: set(paths)}; identity = verify-level key of the object."""
    def ident(entry_caps, objhint=None):
        rw, ro = entry_caps
        cap = rw or ro
        return cap

    # map any dir cap (rw or ro) to its model dir
    dir_by_cap = {}
    for i, d in enumerate(W.dirs):
        dir_by_cap[d["rw"]] = ("dir", i)
        dir_by_cap[d["ro"]] = ("dir", i)
    for j, d in enumerate(W.imm_dirs):
        dir_by_cap[d["ro"]] = ("imm", j)
    for c_ in W.anon_dirs:
        dir_by_cap[c_] = ("anon", verify_key(c_))
    seen_dirs = set()
    visits = []      # (path tuple, key) in model order; key identifies the object up to authority level
    stack = [((), ("dir", ridx))]
    seen_dirs.add(("dir", ridx))
    file_seen = set()
    while stack:
        path, (kind, idx) = stack.pop()
        if kind == "anon":
            continue
        children = W.dirs[idx]["children"] if kind == "dir" else None
        if kind == "imm":
            imm = W.imm_dirs[idx]
            children = {}
            for nm_, objname in imm["children"].items():
                caps = W.caps_of(objname)
                if caps:
                    children[nm_] = {"rw": None, "ro": caps[1]}
        for nm_ in sorted(children):
            e = children[nm_]
            cap = e["rw"] or e["ro"]
            if cap is None:
                continue
            tgt = dir_by_cap.get(cap)
            if tgt is None:
                core = cap
                for pfx in (b"ro.", b"imm."):
                    if core.startswith(pfx):
                        core = core[len(pfx):]
                tgt = dir_by_cap.get(core)
            if tgt is not None and tgt[0] == "anon" and tgt[1] is None:
                # an empty immutable directory is a literal (DIR2-LIT) cap without a verify-cap: like a literal
                # file it is visited once per link; it is still a directory for the statistics
                visits.append((path + (nm_,), ("litdir", cap)))
                continue
            if tgt is not None and tgt[0] == "imm" and verify_key(W.imm_dirs[tgt[1]]["ro"]) is None:
                # a small immutable directory packed into a literal cap: no verify-cap to remember it by, so it is
                # visited (and descended into) once per link; it cannot be part of a cycle
                visits.append((path + (nm_,), ("litdir", cap)))
                stack.append((path + (nm_,), tgt))
                continue
            if tgt is not None:
                if tgt in seen_dirs:
                    continue
                seen_dirs.add(tgt)
                visits.append((path + (nm_,), tgt))
                stack.append((path + (nm_,), tgt))
            else:
                visits.append((path + (nm_,), ("file", cap)))
    return visits, seen_dirs


def verify_key(cap):
    """object identity up to authority: the verify cap string, None for literals/unknowns"""
    try:
        u = uri_mod.from_string(cap)
        v = u.get_verify_cap()
        return v.to_string() if v is not None else None
    except Exception:
        return None


def check_traverse(W, ridx, tkind, drive, bad, probe, fault=None):
    if fault:
        # every server fails one read (the n-th this client sends it) while the walk is under way: the walk may fail as a
        # whole, but a result that is reported as a success still has to cover everything
        for s_ in W.g.servers:
            W.g.net.add_fault({"kind": "error", "callee": s_.name, "caller": W.w.sim_name, "method": "slot_readv", "nth": fault, "secs": 1.0})
        probe("traverse-with-read-fault")
    root = W.w.create_node_from_uri(W.dirs[ridx]["rw"])
    if tkind == "manifest":
        mon = root.build_manifest()
    elif tkind == "stats":
        mon = root.start_deep_stats()
    else:
        mon = root.start_deep_check()
    st, res = drive(mon.when_done(), "deep traversal (%s)" % tkind)
    if fault:
        for r_ in W.g.net.faults:
            r_["done"] = True
    if st != "ok" and fault:
        probe("traverse-failed-under-fault")
        return
    if st != "ok":
        if st == "err":
            bad("C21", "traverse-failed", "deep traversal (%s) failed: %s" % (tkind, res.getTraceback()[-600:]), sig="C21.traverse-failed." + err_name(res))
        return
    visits, seen_dirs = reachable(W, ridx)
    # expected set of distinct objects by verify-cap (directories and non-literal files), literal/unknown links counted per link
    exp_keys = {}
    exp_lit_links = 0
    exp_lit_dirs = [0]
    root_v = verify_key(W.dirs[ridx]["rw"])
    exp_keys[root_v] = [()]
    for path, tgt in visits:
        if tgt[0] == "dir":
            vk = verify_key(W.dirs[tgt[1]]["rw"])
        elif tgt[0] == "anon":
            vk = tgt[1]
        elif tgt[0] == "imm":
            vk = verify_key(W.imm_dirs[tgt[1]]["ro"])
        elif tgt[0] == "litdir":
            vk = None
        else:
            vk = verify_key(tgt[1])
        if vk is None:
            exp_lit_links += 1
            if tgt[0] == "litdir":
                exp_lit_dirs[0] += 1
        else:
            exp_keys.setdefault(vk, []).append(path)
    probe("traverse-" + tkind)
    if tkind == "manifest":
        manifest = res["manifest"]
        got_keys = {}
        lit_links = 0
        for path, cap in manifest:
            vk = verify_key(cap)
            if vk is None:
                lit_links += 1
            else:
                got_keys.setdefault(vk, []).append(path)
        dup = {vk: ps for vk, ps in got_keys.items() if len(ps) > 1}
        if dup:
            bad("C21", "visited-twice", "manifest lists an object more than once: paths %r" % (list(dup.values())[0],))
        missing = set(exp_keys) - set(got_keys)
        extra = set(got_keys) - set(exp_keys)
        if missing:
            bad("C21", "unvisited", "manifest misses %d reachable object(s), e.g. at model path %r" % (len(missing), exp_keys[sorted(missing)[0]][0]))
        if extra:
            bad("C21", "unreachable-visited", "manifest lists %d object(s) the model cannot reach, e.g. path %r" % (len(extra), got_keys[sorted(extra)[0]][0]))
        if lit_links != exp_lit_links:
            bad("C21", "literal-links", "manifest lists %d literal/unknown links, model expects %d" % (lit_links, exp_lit_links))
        # each reported path leads to the object reported for it (walk the model)
        for path, cap in manifest:
            tgt = resolve_path(W, ridx, path)
            if tgt is None:
                bad("C21", "path-does-not-resolve", "manifest path %r does not exist in the model" % (path,))
                break
            vk = verify_key(cap)
            tv = verify_key(tgt)
            if vk != tv:
                bad("C21", "path-leads-elsewhere", "manifest path %r is reported with a cap of a different object" % (path,))
                break
    elif tkind == "stats":
        stats = res
        count_dirs = stats.get("count-directories")
        exp_dirs = 1 + len([1 for vk, ps in exp_keys.items() if vk != root_v and is_dir_key(W, vk)]) + exp_lit_dirs[0]
        if count_dirs != exp_dirs:
            bad("C21", "stats-directories", "deep-stats counts %r directories, model reaches %d distinct directories" % (count_dirs, exp_dirs))
        # files: literal files once per link (they have no identity beyond their contents), every other file once per object
        lit_files = [1 for path, tgt in visits if tgt[0] == "file" and tgt[1].startswith(b"URI:LIT:")]
        imm_files = set(verify_key(tgt[1]) for path, tgt in visits if tgt[0] == "file" and tgt[1].startswith(b"URI:CHK:"))
        mut_files = set(verify_key(tgt[1]) for path, tgt in visits if tgt[0] == "file" and tgt[1].startswith((b"URI:SSK", b"URI:MDMF")))
        for key_, want_ in (("count-literal-files", len(lit_files)), ("count-immutable-files", len(imm_files)),
                            ("count-mutable-files", len(mut_files)), ("count-files", len(lit_files) + len(imm_files) + len(mut_files))):
            if stats.get(key_) != want_:
                bad("C21", "stats-files", "deep-stats reports %s = %r, the model reaches %d (literal file links %d, distinct immutable files %d, "
                    "distinct mutable files %d)" % (key_, stats.get(key_), want_, len(lit_files), len(imm_files), len(mut_files)))
                break
    else:
        cr = res
        counters = cr.get_counters()
        checked = counters.get("count-objects-checked")
        # deep-check checks every distinct object with a verify-cap plus every literal/unknown link
        exp = len(exp_keys)       # literal files and unknown nodes have nothing to check and are not counted
        if checked != exp:
            bad("C21", "check-count", "deep-check checked %r objects, model expects %d (distinct objects %d + literal/unknown links %d)" % (
                checked, exp, len(exp_keys), exp_lit_links))


def is_dir_key(W, vk):
    for d in W.dirs:
        if verify_key(d["rw"]) == vk:
            return True
    for d in W.imm_dirs:
        if verify_key(d["ro"]) == vk:
            return True
    for c_ in W.anon_dirs:
        if verify_key(c_) == vk:
            return True
    return False


def resolve_path(W, ridx, path):
    cur = ("dir", ridx)
    cap = W.dirs[ridx]["rw"]
    dir_by_cap = {}
    for i, d in enumerate(W.dirs):
        dir_by_cap[d["rw"]] = ("dir", i)
        dir_by_cap[d["ro"]] = ("dir", i)
    for j, d in enumerate(W.imm_dirs):
        dir_by_cap[d["ro"]] = ("imm", j)
    for c_ in W.anon_dirs:
        dir_by_cap[c_] = ("anon", None)
    for comp in path:
        if cur is None:
            return None
        if cur[0] == "anon":
            return None
        if cur[0] == "dir":
            children = W.dirs[cur[1]]["children"]
            e = children.get(comp)
            if e is None:
                return None
            cap = e["rw"] or e["ro"]
        else:
            objname = W.imm_dirs[cur[1]]["children"].get(comp)
            if objname is None:
                return None
            caps = W.caps_of(objname)
            cap = caps[1]
        core = cap
        for pfx in (b"ro.", b"imm."):
            if core is not None and core.startswith(pfx):
                core = core[len(pfx):]
        cur = dir_by_cap.get(cap) or dir_by_cap.get(core)
    return cap


def finish(g, viol, probes, case, focus):
    fp = hashlib.sha256(repr(sorted(probes.items())).encode()).hexdigest()[:16]
    for nm in R.logged_errors:
        probes["logged-error-" + nm] = probes.get("logged-error-" + nm, 0) + 1
    if R.errors:
        viol.append({"clause": "%s.unhandled-error" % focus, "sig": "%s.unhandled-error" % focus,
                     "detail": "exception escaped into the reactor:\n" + R.errors[0][1][-1500:]})
    return {"violations": [v for v in viol if v["clause"].split(".")[0] == focus][:4],
            "digest": R.digest(), "fingerprint": fp, "nontrivial": len(probes) >= 3,
            "events": R.events, "sim_s": R.true_seconds() - EPOCH, "faults": dict(g.net.fired), "probes": probes}
