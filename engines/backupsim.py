"""backupsim — BackupDB_v2 on sqlite with a simulated local file system (os.stat seam) and clock:
histories of local file changes, backup runs, directory snapshots and process restarts (DESIGN §4 C42)."""
import hashlib
import os
import stat as stat_mod
import tempfile

from sim import boot
from sim.choice import Chooser

R = boot.install()

from allmydata.scripts import backupdb as bdb_mod        # noqa: E402


class SimStat(tuple):
    pass


class SimOS(object):
    """`os` as seen by backupdb: stat() answers from the simulated local file system."""
    def __init__(self, fs):
        self.fs = fs
        self.path = os.path

    def __getattr__(self, k):
        return getattr(os, k)

    def stat(self, path):
        f = self.fs.get(path)
        if f is None:
            raise FileNotFoundError(path)
        st = [0] * 10
        st[stat_mod.ST_SIZE] = f["size"]
        st[stat_mod.ST_MTIME] = f["mtime"]
        st[stat_mod.ST_CTIME] = f["ctime"]
        st[stat_mod.ST_MODE] = 0o100644
        return tuple(st)


def gen_backup(seed, tier):
    ch = Chooser(seed)
    W = "workload"
    paths = ["/sim/a", "/sim/b", "/sim/dir/c", "/sim/é", "/sim/d e", "/sim/f"]
    ops = []
    for i in range(ch.randint(W, "nops", 5, 40)):
        k = ch.weighted(W, ("k", i), [("write", 6), ("touch", 2), ("backup", 10), ("rename", 1.5), ("delete", 1), ("restart", 1), ("advance", 1.5),
                                      ("snapshot", 3), ("same-stat-new-content", 1)])
        p = ch.pick(W, ("p", i), paths)
        if k == "write":
            ops.append(["write", p, ch.randint(W, ("content", i), 1, 50), ch.pick(W, ("size", i), [0, 1, 10, 10, 100]),
                        ch.pick(W, ("mt", i), ["now", "now", "same", "old"]), ch.pick(W, ("ct", i), ["now", "now", "same"])])
        elif k == "touch":
            ops.append(["touch", p, ch.pick(W, ("which", i), ["mtime", "ctime", "both"])])
        elif k == "backup":
            ops.append(["backup", p, ch.chance(W, ("ts", i), 0.8), ch.chance(W, ("upload", i), 0.9),
                        # the file is rewritten while its upload is in flight (between check_file and did_upload)
                        ch.pick(W, ("race", i), [None, None, None, None, "same-size", "new-size"])])
        elif k == "rename":
            ops.append(["rename", p, ch.pick(W, ("p2", i), paths)])
        elif k == "delete":
            ops.append(["delete", p])
        elif k == "restart":
            ops.append(["restart"])
        elif k == "advance":
            ops.append(["advance", ch.pick(W, ("dt", i), [1, 60, 86400, 86400 * 45, 86400 * 90])])
        elif k == "snapshot":
            names = ch.sample(W, ("names", i), ["x", "y", "z", "é", "x y"], ch.randint(W, ("nn", i), 0, 4))
            ops.append(["snapshot", [[n_, ch.randint(W, ("cap", i, n_), 1, 4)] for n_ in names], ch.chance(W, ("create", i), 0.9)])
        else:
            ops.append(["same-stat-new-content", p, ch.randint(W, ("content", i), 51, 99)])
    return {"engine": "backupsim", "seed": seed, "cfg": {}, "ops": ops}


def exec_backup(case):
    from sim.runner import child_tmp
    base = tempfile.mkdtemp(dir=child_tmp())
    R.reset_sim()
    import random
    random.seed(case["seed"])
    fs = {}
    bdb_mod.os = SimOS(fs)
    viol, probes = [], {}

    def probe(nm):
        probes[nm] = probes.get(nm, 0) + 1

    def bad(clause, detail):
        viol.append({"clause": "C42." + clause, "sig": "C42." + clause, "detail": detail})
    dbfile = os.path.join(base, "backupdb.sqlite")
    try:
        bdb = bdb_mod.get_backupdb(dbfile)
        last = {}        # path -> (size, mtime, ctime, cap) of its most recent recorded upload
        dirs = {}        # frozenset((name, cap)) -> dircap
        ncap = [0]
        for opi, op in enumerate(case["ops"]):
            k = op[0]
            now = int(R.seconds())
            if k == "write":
                _, p, content, size, mt, ct = op
                old = fs.get(p)
                f = {"content": content, "size": size,
                     "mtime": now if mt == "now" or old is None else (old["mtime"] if mt == "same" else now - 1000),
                     "ctime": now if ct == "now" or old is None else old["ctime"]}
                fs[p] = f
            elif k == "same-stat-new-content":
                if op[1] in fs:
                    fs[op[1]]["content"] = op[2]
            elif k == "touch":
                if op[1] in fs:
                    if op[2] in ("mtime", "both"):
                        fs[op[1]]["mtime"] = now
                    if op[2] in ("ctime", "both"):
                        fs[op[1]]["ctime"] = now
            elif k == "rename":
                if op[1] in fs and op[1] != op[2]:
                    fs[op[2]] = fs.pop(op[1])
                    fs[op[2]]["ctime"] = now
            elif k == "delete":
                fs.pop(op[1], None)
            elif k == "advance":
                R.advance(op[1])
            elif k == "restart":
                bdb.connection.close()
                bdb = bdb_mod.get_backupdb(dbfile)
                probe("restart")
            elif k == "backup":
                _, p, use_ts, do_upload = op[:4]
                race = op[4] if len(op) > 4 else None
                if p not in fs:
                    continue
                f = fs[p]
                r = bdb.check_file(p, use_timestamps=use_ts)
                cap = r.was_uploaded()
                rec = last.get(p)
                matches = rec is not None and rec[:3] == (f["size"], f["mtime"], f["ctime"]) and use_ts
                if cap:
                    probe("reuse")
                    if not matches:
                        bad("reused-for-changed-file", "was_uploaded() returned a cap for %s although (size, mtime, ctime, timestamps trusted) = %r does not match the record of its most recent upload %r" % (
                            p, (f["size"], f["mtime"], f["ctime"], use_ts), rec))
                    elif cap != rec[3]:
                        bad("wrong-cap", "was_uploaded() returned %r, the most recent upload of %s was %r" % (cap, p, rec[3]))
                else:
                    probe("no-reuse")
                    if matches:
                        bad("not-reused", "was_uploaded() returned nothing for %s although its size and timestamps match its most recent upload" % p)
                    # the database forgets a record it found stale
                    if rec is not None and not matches:
                        last.pop(p, None)
                    if do_upload:
                        ncap[0] += 1
                        newcap = b"URI:CHK:%s-%d" % (hashlib.sha256(b"%d-%d" % (f["content"], f["size"])).hexdigest()[:12].encode(), f["content"])
                        checked = (f["size"], f["mtime"], f["ctime"])
                        if race:
                            R.advance(2)
                            fs[p] = {"content": f["content"] + 1000, "size": f["size"] + (0 if race == "same-size" else 7),
                                     "mtime": int(R.seconds()), "ctime": int(R.seconds())}
                            probe("file-rewritten-during-upload")
                        r.did_upload(newcap)
                        # the cap belongs to the version that was checked and uploaded, not to what the file has become since
                        last[p] = checked + (newcap,)
                        probe("upload")
            elif k == "snapshot":
                _, ents, create = op
                contents = {n_: b"URI:CHK:cap%d" % c_ for (n_, c_) in ents}
                r = bdb.check_directory(contents)
                key = frozenset(contents.items())
                got = r.was_created()
                if got:
                    probe("dir-reuse")
                    if dirs.get(key) != got:
                        bad("dircap-reused-for-other-contents", "was_created() returned %r for contents %r; recorded dircap for exactly these contents: %r" % (got, sorted(contents.items()), dirs.get(key)))
                else:
                    if key in dirs:
                        bad("dircap-not-reused", "identical directory contents were not recognised")
                    if create:
                        ncap[0] += 1
                        dc = b"URI:DIR2-CHK:dir%d" % ncap[0]
                        r.did_create(dc)
                        dirs[key] = dc
                        probe("dir-create")
            if viol:
                break
    finally:
        bdb_mod.os = os
    fp = hashlib.sha256(repr(sorted(probes.items())).encode()).hexdigest()[:16]
    dg = hashlib.sha256((repr(case["ops"]) + repr(sorted(probes.items())) + repr([v["clause"] for v in viol])).encode()).hexdigest()
    return {"violations": viol[:3], "digest": dg, "fingerprint": fp, "nontrivial": len(probes) >= 2, "events": len(case["ops"]),
            "sim_s": R.true_seconds() - 1_700_000_000.0, "faults": {"restart": probes.get("restart", 0)}, "probes": probes}
