from engines import crawlsim
PROPERTY = "C27"
ENGINE = "crawlsim"
LEVEL = "fault_enumeration"
COUNTS = {"quick": 160, "thorough": 3000}
CHUNK = 1
TIMEOUT = 300
WALL = {"quick": 200, "thorough": 2400}
RULE = ("seeded bucket sets (1-6 buckets over 1-3 prefixes, immutable/mutable shares) crawled for 2 cycles by a recording subclass of ShareCrawler or of the real "
        "LeaseCheckingCrawler; per workload: every single interruption point (clock jump past cpu_slice after each bucket and after each prefix; all of them "
        "when the prefix list is the reduced 4-16 knob, a sample of prefix points for the full 1024), seeded multi-interruption patterns, graceful restarts "
        "(stopService + new object) and kills between slices, and a kill at every crashfs point (state tmp-file create/write/rename) of an interrupted crawl, "
        "each followed by restart from the persisted state; non-trivial = at least one time-slice interruption fired; distinct = set of visit orders")
TECHNIQUE = "deterministic simulation: enumeration of time-slice interruption and kill points with restart, visit-count oracle"
LEVEL_TEXT = "interruption and kill points enumerated per sampled workload; workloads sampled by seed"
LEVEL_NOTE = ("the clock advances inside process_bucket/finished_prefix by harness hook (subclass), prefixes list may be shortened by the harness (knob); "
              "real: ShareCrawler.start_slice/start_current_prefix/process_prefixdir/save_state/load_state, LeaseCheckingCrawler state handling")
REAL = ["ShareCrawler", "LeaseCheckingCrawler", "_LeaseStateSerializer", "fileutil.move_into_place", "real files"]
STUB = ["reactor/clock", "kernel boundary (crashfs)", "CPU time (clock bumped inside process_bucket)"]
ASSUMPTIONS = ["kill -9 model (see C29)"]
generate = crawlsim.gen_cover_case
execute = crawlsim.execute_cover
