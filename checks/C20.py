"""C20 — dirsim (DESIGN §4 C18-C21)."""
from engines import dirsim
PROPERTY = "C20"
ENGINE = "dirsim"
LEVEL = "exploration"
COUNTS = {"quick": 320, "thorough": 6000}
CHUNK = 10
TIMEOUT = 120
WALL = {"quick": 170, "thorough": 1700}
RULE = ("seeded histories (4-30 operations) over up to three real directories (SDMF/MDMF) plus immutable directories on a simulated grid: add (set_uri/set_node/"
        "set_children/add_file/create_subdirectory) with overwrite in {True, False, ONLY_FILES}, delete with must_exist/must_be_file/dir, rename/move within and "
        "across directories, set_metadata (incl. no-write), clock advances; children of every kind (LIT, CHK, SSK, MDMF, directories incl. self/cycles, read-only "
        "links to the same object, unknown future caps with and without ro./imm. prefixes); colliding and NFC-equivalent Unicode names; nested JSON metadata; a "
        "write-cap client edits, a read-cap client observes after every operation against a name->(caps, metadata, timestamps) model; "
        "non-trivial = >=3 distinct probe kinds; distinct = probe-count fingerprint")
RULE += '; directed situations: a move that must be refused because the destination name is taken (other directory / same directory), renames between two spellings of one name'
TECHNIQUE = "deterministic simulation: seeded edit histories on real directory nodes vs name-map reference model, invariants after every step"
LEVEL_TEXT = "seeded search over edit histories and delivery schedules with a step-by-step reference model; sampling, not enumeration"
LEVEL_NOTE = ("real: dirnode (Adder/Deleter/MetadataSetter, pack/unpack, deep traversal), nodemaker, mutable/immutable file stacks, storage servers; "
              "stub: reactor, foolscap wire, os.urandom, RSA keygen (pool). C18/C19/C21 have no schedule or fault in their statement: they are decided as "
              "invariants over the states that edit histories reach (DESIGN §4)")
REAL = ["allmydata.dirnode", "allmydata.nodemaker", "allmydata.unknown", "mutable.*", "immutable.*", "storage.server"]
STUB = ["reactor/time", "foolscap transport (SimNet/SimRef; per-connection FIFO; in half of the runs arrivals are batched: several messages handed over before queued zero-delay turns run)", "os.urandom", "RSA keygen (pool)"]
ASSUMPTIONS = ["one writing client at a time (concurrent directory edits are C12/C13)"]


def generate(seed, tier):
    return dirsim.gen_dir(seed, tier, "C20")


def execute(case):
    return dirsim.exec_dir(case)
