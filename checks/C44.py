"""C44 — helpersim (DESIGN §4 C44)."""
from engines import helpersim
PROPERTY = "C44"
ENGINE = "helpersim"
LEVEL = "exploration"
COUNTS = {"quick": 1500, "thorough": 40000}
CHUNK = 25
TIMEOUT = 120
WALL = {"quick": 150, "thorough": 1500}
RULE = ("seeded files (56 B - 30 kB), k/n/happy, segment size, helper fetch chunk (97 B - 50 KiB) and upload pipeline knobs; 1-8 operations: assisted upload by one of two "
        "real clients with one armed fault (client<->helper connection lost before/after the j-th read_encrypted for every j up to the chunk count; helper process "
        "killed at the j-th read_encrypted, keeping a drawn prefix of the buffered incoming file; helper killed at the j-th allocate_buckets/write/close of the push; "
        "one helper<->server connection lost), two concurrent assisted uploads of the same file, loss of a share, helper restart; then a fault-free assisted upload. "
        "Checked: every reported success carries exactly the read-cap and verify-cap of a direct upload (same convergence secret and parameters, disjoint servers); "
        "every share on the helper's servers is byte-identical to the direct upload's share; the helper's CHK_incoming is always a prefix of, and CHK_encoding always "
        "equal to, the true ciphertext (AES-CTR under the cap's key); a present file (all N intact shares reachable) is reported without read_encrypted or "
        "allocate_buckets; fault-free uploads succeed, never hang, end with all N shares and read back; non-trivial = at least one success judged; distinct = probes+faults fingerprint")
RULE += '; plus layouts where a share number is lost everywhere while another exists twice'
RULE += '; plus literal-sized files (0-55 bytes) through a client that has a helper'
TECHNIQUE = "deterministic simulation: seeded interruption of the helper ciphertext transfer and push at every chunk/message index with resume, differential against a direct upload and the true ciphertext"
LEVEL_TEXT = "seeded search over files, parameters, chunk sizes, interruption points and resume histories; sampling, not enumeration"
LEVEL_NOTE = "real: Helper, CHKUploadHelper, CHKCiphertextFetcher, LocalCiphertextReader, CHKCheckerAndUEBFetcher, AssistedUploader, RemoteEncryptedUploadable, CHKUploader, storage servers; stub: foolscap wire, reactor; helper process death is modelled as loss of all its connections plus truncation of the append-only incoming file to a prefix"
REAL = ["allmydata.immutable.offloaded.Helper", "allmydata.immutable.offloaded.CHKUploadHelper", "allmydata.immutable.offloaded.CHKCiphertextFetcher",
        "allmydata.immutable.offloaded.CHKCheckerAndUEBFetcher", "allmydata.immutable.upload.AssistedUploader", "allmydata.immutable.upload.RemoteEncryptedUploadable",
        "allmydata.immutable.upload.CHKUploader", "allmydata.storage.server"]
STUB = ["foolscap transport (SimNet/SimRef), helper connection established by the harness (Uploader._helper set as _got_versioned_helper would)", "reactor/time",
        "helper process death: connections dropped + incoming file truncated to a drawn prefix; the dead process' objects stay in memory but can reach nothing"]
ASSUMPTIONS = ["share corruption on storage servers is outside this property's quantifier (the helper trusts the UEB of any one share when reporting a present file)"]
generate = helpersim.gen_helper
execute = helpersim.exec_helper
