"""C39 — sftpsim (DESIGN §4 C39)."""
from engines import sftpsim
PROPERTY = "C39"
ENGINE = "sftpsim"
LEVEL = "exploration"
COUNTS = {"quick": 12000, "thorough": 300000}
CHUNK = 200
TIMEOUT = 120
WALL = {"quick": 120, "thorough": 1500}
RULE = ("seeded histories of up to 20 client operations (overwrite at offsets before/inside/after the downloaded prefix and past EOF, set size smaller/larger, "
        "read) on the real OverwriteableFileConsumer over the real EncryptedTemporaryFile, interleaved with download chunks of drawn sizes delivered at drawn points "
        "(the download producer is a simulated party); reference = original bytes with the client's writes and size changes applied in order; reads are issued "
        "only when no overwrite is pending, as the class contract requires; non-trivial = >=2 probe kinds; distinct = probe-count fingerprint")
TECHNIQUE = "deterministic simulation: seeded interleavings of client operations and download delivery vs byte-array reference model"
LEVEL_TEXT = "seeded search over interleavings and chunkings; sampling, not enumeration"
LEVEL_NOTE = "real: sftpd.OverwriteableFileConsumer, EncryptedTemporaryFile; stub: the download producer (harness delivers the original bytes), reactor. GeneralSFTPFile over a grid is not driven"
REAL = ["allmydata.frontends.sftpd.OverwriteableFileConsumer", "allmydata.frontends.sftpd.EncryptedTemporaryFile"]
STUB = ["download producer (harness)", "reactor"]
ASSUMPTIONS = ["the caller issues no overwrite while a read is outstanding (documented contract of the class)"]
generate = sftpsim.gen_sftp
execute = sftpsim.exec_sftp
