"""C39 — sftpsim (DESIGN §4 C39)."""
from engines import sftpsim
PROPERTY = "C39"
ENGINE = "sftpsim"
LEVEL = "exploration"
COUNTS = {"quick": 7200, "thorough": 300000}
CHUNK = 200
TIMEOUT = 120
WALL = {"quick": 120, "thorough": 1500}
RULE = ("seeded histories of up to 20 client operations (overwrite at offsets before/inside/after the downloaded prefix and past EOF, set size smaller/larger, "
        "read) on the real OverwriteableFileConsumer over the real EncryptedTemporaryFile, interleaved with download chunks of drawn sizes delivered at drawn points "
        "(the download producer is a simulated party); reference = original bytes with the client's writes and size changes applied in order; reads are issued "
        "only when no overwrite is pending, as the class contract requires; non-trivial = >=2 probe kinds; distinct = probe-count fingerprint")
TECHNIQUE = "deterministic simulation: seeded interleavings of client operations and download delivery vs byte-array reference model"
LEVEL_TEXT = "seeded search over interleavings and chunkings; sampling, not enumeration"
LEVEL_NOTE = ("5 of 6 runs — real: sftpd.OverwriteableFileConsumer, EncryptedTemporaryFile; stub: the download producer (harness delivers the original bytes), reactor. "
              "1 of 6 runs (profile 'handle') — real: sftpd.GeneralSFTPFile opened read+write on an existing CHK/SDMF/MDMF file of a real client on a simulated grid: the "
              "background download is the real downloader/Retrieve, client writeChunk/setAttrs/readChunk arrive at drawn simulated instants, close() commits through the "
              "real dirnode/mutable node and the committed file is read back by a fresh client; the SSH transport (twisted.conch) is not driven")
REAL = ["allmydata.frontends.sftpd.OverwriteableFileConsumer", "allmydata.frontends.sftpd.EncryptedTemporaryFile", "allmydata.frontends.sftpd.GeneralSFTPFile (handle profile)", "client/uploader/downloader/mutable/dirnode (handle profile)"]
STUB = ["download producer (harness)", "reactor"]
ASSUMPTIONS = ["the caller issues no overwrite or truncation while a read is outstanding (documented contract of the class); several reads may be outstanding together"]


def generate(seed, tier):
    # one run in six drives the whole file handle (GeneralSFTPFile) over a simulated grid; the others drive the
    # consumer class directly (much cheaper, far more interleavings)
    if seed % 6 == 5:
        return sftpsim.gen_handle(seed, tier)
    return sftpsim.gen_sftp(seed, tier)


def execute(case):
    if case.get("profile") == "handle":
        return sftpsim.exec_handle(case)
    return sftpsim.exec_sftp(case)
