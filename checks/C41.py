"""C41 — websim (DESIGN §4 C41)."""
from engines import websim
PROPERTY = "C41"
ENGINE = "websim"
LEVEL = "exploration"
COUNTS = {"quick": 400, "thorough": 12000}
CHUNK = 20
TIMEOUT = 180
WALL = {"quick": 200, "thorough": 1800}
RULE = ("a fixed mixed-authority tree built through the node API (mutable SDMF/MDMF directories, immutable directory, CHK/LIT/SDMF/MDMF files, a directory linked "
        "read-only whose children are stored with their write caps, a mutable file linked read-only) on 2-4 real storage servers; 6-30 seeded web requests through "
        "the real resource tree: PUT file / ?t=uri / ?t=mkdir / ?offset=, DELETE, POST with every t= (mkdir, mkdir-with-children, mkdir-immutable, upload, uri, "
        "unlink, delete, rename, relink, set_children; check / deep-check / manifest / deep-size / deep-stats with repair, add-lease, verify), GET with every t=, "
        "addressed by write, read-only or verify caps of every directory / mutable file, with 0-3 path segments through existing and new names, some pairs overlapped; "
        "/private/logs/v1 with no / wrong / truncated / wrong-scheme / right token.  Checked after every request, on the servers' disks: the data region of every "
        "mutable share of every pre-existing object whose write cap is not obtainable from the write caps the request presented (URL, query, body) is unchanged; "
        "modifying requests that present no write cap are not answered 2xx; responses contain no write cap of an existing object that the presented caps do not "
        "give; the private area answers 401 unless the token is right (any other token reaching the protected resource is a violation); before the first request the "
        "harness asserts that its on-disk ground truth sees every mutable object of the tree; non-trivial = at least one request "
        "without write authority judged; distinct = probe fingerprint")
RULE += '; plus re-links that diminish an existing link (same object by its read-only cap), two-child set_children bodies; after every 2xx the stored link is compared with the cap the request gave for it'
TECHNIQUE = "deterministic simulation: seeded web-API request sequences against the real resource tree on a simulated grid, disk-level before/after comparison against the write authority presented"
LEVEL_TEXT = "seeded search over request kinds, cap flavours, path shapes and operation arguments; sampling, not enumeration"
LEVEL_NOTE = "real: web.root.Root, web.directory, web.filenode, web.unlinked, web.operations, web.private, webish.TahoeLAFSSite/TahoeLAFSRequest, dirnode, mutable/immutable filenodes, storage servers; stub: TCP/HTTP parsing (requests are built as HTTPChannel would and handed to Request.requestReceived), foolscap wire, reactor"
REAL = ["allmydata.web.root", "allmydata.web.directory", "allmydata.web.filenode", "allmydata.web.unlinked", "allmydata.web.operations", "allmydata.web.private",
        "allmydata.webish.TahoeLAFSSite", "allmydata.webish.TahoeLAFSRequest", "allmydata.dirnode", "allmydata.mutable", "allmydata.immutable", "allmydata.storage.server"]
STUB = ["listening socket and HTTP wire parsing (twisted HTTPChannel) — requests enter at Request.requestReceived", "foolscap transport (SimNet)", "reactor/time"]
ASSUMPTIONS = ["creating new, unlinked objects on the grid needs no authority and is not counted as exceeding one (reported as a probe)"]
generate = websim.gen_web
execute = websim.exec_web
