"""C35 — structsim (DESIGN §4 C35)."""
from engines import structsim
PROPERTY = "C35"
ENGINE = "structsim"
LEVEL = "exploration"
COUNTS = {"quick": 12000, "thorough": 300000}
CHUNK = 250
TIMEOUT = 120
WALL = {"quick": 120, "thorough": 1500}
RULE = ("seeded operation histories on the real object compared step by step with a reference model (C35: complete Merkle tree built with hashlib; trees of 1-64 "
        "leaves, up to 20 set_hashes calls each offering genuine / forged / missing nodes and leaves in drawn dict orders; C37: set of integers and offset->byte "
        "dict, up to 200 operations over offsets 0..300); non-trivial = at least two calls; distinct = probe-count fingerprint")
TECHNIQUE = "seeded stateful histories vs executable reference model (the reference-model half of deterministic simulation; no fault or schedule dimension exists here)"
LEVEL_TEXT = "seeded search over call histories; not the exhaustive symbolic enumeration the quantifier also mentions (that would be model checking)"
LEVEL_NOTE = "real: allmydata.hashtree.IncompleteHashTree / allmydata.util.spans; trusted: oracles/refhash.py (hashlib only) and Python sets/dicts"
REAL = ["allmydata.hashtree.IncompleteHashTree", "allmydata.util.spans.Spans", "allmydata.util.spans.DataSpans"]
STUB = []
ASSUMPTIONS = ["SHA-256d collision resistance (a forged value never equals the genuine one)"]


def generate(seed, tier):
    return structsim.gen_tree(seed, tier)


def execute(case):
    return structsim.exec_tree(case)
