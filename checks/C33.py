"""C33 — gmsim (DESIGN §4 C33)."""
from engines import gmsim
PROPERTY = "C33"
ENGINE = "gmsim"
LEVEL = "exploration"
COUNTS = {"quick": 1500, "thorough": 40000}
CHUNK = 40
TIMEOUT = 120
WALL = {"quick": 150, "thorough": 1500}
RULE = ("same engine as C33's sibling check (gmsim): 0-3 configured grid-manager keys per client, servers announcing certificates that are valid, expired, "
        "expiring during the run, signed by an unconfigured or rogue key, naming another server, with edited expiry or subject, flipped or swapped signature, in "
        "several time zones and with sub-second expiries; the simulated clock is moved to each expiry instant and +-1us/+-1ms/+-1s around it, servers re-announce "
        "with new certificate sets.  Checked at every step for every (client, server): NativeStorageServer.upload_permitted() == exists certificate verified "
        "(by cryptography's ed25519) under a configured key, naming the server, expires > now; no keys => permitted; non-trivial = at least one permission compared; "
        "distinct = probe-count fingerprint")
TECHNIQUE = "deterministic simulation: seeded certificate sets (forged/expired/other-server) evaluated on a simulated clock stepped across expiry instants, against an independent ed25519/JSON/datetime predicate"
LEVEL_TEXT = "seeded search over server sets, preferred lists, certificate sets, connection histories and clock positions; sampling, not enumeration"
LEVEL_NOTE = "real: StorageFarmBroker, NativeStorageServer, StorageClientConfig.from_node_config, grid_manager verifier, immutable upload, mutable publish, storage servers; stub: foolscap wire, reactor, clock (grid_manager.current_datetime_with_zone rebound to simulated time)"
REAL = ["allmydata.storage_client.StorageFarmBroker", "allmydata.storage_client.NativeStorageServer", "allmydata.storage_client.StorageClientConfig.from_node_config",
        "allmydata.grid_manager.create_grid_manager_verifier", "allmydata.immutable.upload", "allmydata.mutable.publish", "allmydata.storage.server"]
STUB = ["foolscap transport (SimNet/SimRef); connection establishment via StorageFarmBroker.test_add_rref", "reactor/time; grid_manager.current_datetime_with_zone reads the simulated clock"]
ASSUMPTIONS = ["Ed25519 unforgeability", "HTTP storage servers (HTTPNativeStorageServer) use the same verifier object; not exercised"]


def generate(seed, tier):
    return gmsim.gen_gm(seed, tier, "C33")


execute = gmsim.exec_gm
