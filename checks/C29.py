"""C29 — share containers survive a server crash: crashfs fault enumeration over storesim workloads."""
from engines import crashsim

PROPERTY = "C29"
ENGINE = "crashsim"
LEVEL = "fault_enumeration"
COUNTS = {"quick": 480, "thorough": 8000}
CHUNK = 4
TIMEOUT = 180
WALL = {"quick": 200, "thorough": 2400}
RULE = ("seeded workloads (immutable upload incl. second share in the same bucket and abort; add/renew lease on immutable and mutable; "
        "allocate on an existing bucket; mutable writes growing containers with 1-7 leases; truncation; deletion); for each workload the run "
        "without crash counts the kernel-visible mutations P, then the workload is re-run P times killing the process before point n=1..P "
        "(every point, exhaustively for that workload), restarting the server and checking invariants; non-trivial = P>=4; "
        "distinct = distinct sequence of (syscall kind, file) crash points")
TECHNIQUE = "deterministic simulation with crash-point enumeration (crashfs) and restart invariants"
LEVEL_TEXT = ("every file-system mutation point of each sampled workload is used as a kill point (exhaustive per workload, workloads sampled by seed)")
LEVEL_NOTE = ("process-kill model: what reached write(2)/rename/unlink survives, Python buffers do not; power-loss/fsync ordering is out of scope. "
              "Real: StorageServer, share containers, fileutil, Python io buffering; stub: the kernel boundary (counting FileIO, os proxy)")
REAL = ["StorageServer", "ShareFile", "MutableShareFile", "BucketWriter", "fileutil", "io.Buffered* (real user-space buffering)"]
STUB = ["kernel boundary: counting io.FileIO + os proxy (crashfs)", "reactor/clock"]
ASSUMPTIONS = ["kill -9 model: a system call is atomic w.r.t. the kill; no torn single write"]
DESIGN_REF = "DESIGN.md §2.6, §4 C29"

def generate(seed, tier):
    if seed % 40 == 13:
        from engines import storesim
        return storesim.gen_huge(seed, tier, "C29")       # sparse shares around the 4 GiB mark: restarts (re-open) and lease-only operations
    return crashsim.gen_case(seed, tier)


def execute(case):
    if case.get("profile") == "huge":
        from engines import storesim
        return storesim.exec_huge(case)
    return crashsim.execute(case)


def shrink(case):
    if case.get("profile") == "huge":
        return iter(())
    return crashsim.shrink(case)
