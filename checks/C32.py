"""C32 — gmsim (DESIGN §4 C32)."""
from engines import gmsim
PROPERTY = "C32"
ENGINE = "gmsim"
LEVEL = "exploration"
COUNTS = {"quick": 1500, "thorough": 40000}
CHUNK = 40
TIMEOUT = 120
WALL = {"quick": 150, "thorough": 1500}
RULE = ("seeded grids of 2-8 servers and 2-3 real clients built from tahoe.cfg (peers.preferred, [grid_managers]); clients learn servers in different orders, "
        "disconnect/reconnect/re-announce individually; servers announce 0-4 grid-manager certificates of drawn kinds; the simulated clock is advanced and moved to "
        "expiry instants (+-1us, +-1ms, +-1s) between queries, real immutable uploads and mutable creates/overwrites.  Checked: get_servers_for_psi order == preferred "
        "first then SHA1(SI+seed) (independent reference) for every client; identically configured clients with the same view agree; for_upload set == servers with a "
        "currently valid certificate; no allocate_buckets / share-creating writev is delivered to a server that was not permitted at the start of the operation or at "
        "delivery; non-trivial = at least one order or permission compared; distinct = probe-count fingerprint")
TECHNIQUE = "deterministic simulation: seeded multi-client grids with simulated clock moved across certificate expiry, transport monitor for share-creating messages, independent permutation/certificate reference"
LEVEL_TEXT = "seeded search over server sets, preferred lists, certificate sets, connection histories and clock positions; sampling, not enumeration"
LEVEL_NOTE = "real: StorageFarmBroker, NativeStorageServer, StorageClientConfig.from_node_config, grid_manager verifier, immutable upload, mutable publish, storage servers; stub: foolscap wire, reactor, clock (grid_manager.current_datetime_with_zone rebound to simulated time)"
REAL = ["allmydata.storage_client.StorageFarmBroker", "allmydata.storage_client.NativeStorageServer", "allmydata.storage_client.StorageClientConfig.from_node_config",
        "allmydata.grid_manager.create_grid_manager_verifier", "allmydata.immutable.upload", "allmydata.mutable.publish", "allmydata.storage.server"]
STUB = ["foolscap transport (SimNet/SimRef); connection establishment via StorageFarmBroker.test_add_rref", "reactor/time; grid_manager.current_datetime_with_zone reads the simulated clock"]
ASSUMPTIONS = ["Ed25519 unforgeability", "HTTP storage servers (HTTPNativeStorageServer) use the same verifier object; not exercised"]


def generate(seed, tier):
    return gmsim.gen_gm(seed, tier, "C32")


execute = gmsim.exec_gm
