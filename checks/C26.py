from engines import crawlsim
PROPERTY = "C26"
ENGINE = "crawlsim"
LEVEL = "exploration"
COUNTS = {"quick": 3000, "thorough": 60000}
CHUNK = 10
TIMEOUT = 120
WALL = {"quick": 150, "thorough": 1500}
RULE = ("seeded GC configurations (disabled / age / age+override / cutoff-date x share-type filters) against 1-8 shares (immutable and mutable) "
        "carrying 1-5 leases whose renewal times straddle the policy threshold by seconds and days; shares and leases are created through the real "
        "StorageServer API at controlled simulated times, then the real LeaseCheckingCrawler (built by StorageServer from expiration_* kwargs) runs "
        "1-2 full cycles; oracle = documented predicate per lease; non-trivial = at least one share examined; distinct = (policy, outcome counts)")
RULE += "; plus slow disks (0.3-1.2 simulated seconds per bucket: multi-slice cycles), buckets crowded into 1-2 prefix directories, and the policy delivered through tahoe.cfg and the client's own option parsing (drawn boolean spellings) in 40% of runs"
TECHNIQUE = "deterministic simulation: simulated clock over lease histories, real lease crawler, reference expiry predicate"
LEVEL_TEXT = "seeded search over policies and lease-age histories with an executable reference predicate"
LEVEL_NOTE = ("trusted: the reference predicate (renew+duration<now / renew<cutoff), the sim clock; real: StorageServer, LeaseCheckingCrawler, share containers. "
              "zero-lease shares are not generated (production cannot create them); byte counters are not compared (depend on st_blocks)")
REAL = ["StorageServer", "LeaseCheckingCrawler/ShareCrawler", "ShareFile", "MutableShareFile", "real files"]
STUB = ["reactor/clock"]
ASSUMPTIONS = ["crawl slices are not interrupted in this check (C27 covers interruption)", "exact-equality instants (renew+duration==now) accept either outcome"]
generate = crawlsim.gen_gc_case
execute = crawlsim.execute_gc
