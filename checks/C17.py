"""C17 — immsim roundtrip profile, focus C17 (DESIGN §4 C17)."""
from engines import immsim, mutsim
PROPERTY = "C17"
ENGINE = "gridsim/imm + gridsim/mut"
LEVEL = "exploration"
COUNTS = {"quick": 900, "thorough": 20000}
CHUNK = 40
TIMEOUT = 60
WALL = {"quick": 170, "thorough": 1700}
RULE = ("seeded runs of the real uploader/downloader on a simulated grid: k<=N<=16, happy<=N, max segment size from 1*k to 128KiB, 1..N+3 servers, "
        "sizes concentrated on 0/55/56, segment and k boundaries; delivery order of every server answer drawn per message (uniform/heavy-tailed/FIFO latency), "
        "write-batch size, read chunk size, share-layout version, overdue timer and finder parallelism randomised per run; reads through a fresh client; "
        "non-trivial = an upload completed and a read/oracle ran; distinct = (probe counts, k, n, size) fingerprint")
RULE += '; one run in five: directory histories (dirsim) in which the stored contents of every directory are parsed and each child write cap must decrypt under H(tag, salt, that directory\'s writekey), including directories created from another directory\'s listing; of the rest, one run in four each: immutable round trip, mutable create/write histories with several files per client, uploads on grids with full/read-only/slow servers and pre-existing shares, check/repair with add-lease -- the secrets of every allocate_buckets / add_lease / slot_testv_and_readv_and_writev on the wire are compared with a hashlib-only derivation'
TECHNIQUE = "deterministic simulation: seeded schedules over a simulated network/reactor, byte-exact and independent-decoder oracles"
LEVEL_TEXT = "seeded search over inputs, configurations and delivery schedules; sampling, not enumeration"
LEVEL_NOTE = ("real: allmydata.client._Client, Uploader/Encoder/Tahoe2ServerSelector, downloader, StorageFarmBroker/NativeStorageServer, StorageServer; "
              "stub: reactor, foolscap wire (SimRef, per-connection FIFO), os.urandom (seeded), CPU thread pool (simulated: synchronous, or completion as a reactor event after a drawn delay), RSA keygen (pool); "
              "trusted: oracles/sharecheck.py + oracles/refhash.py (hashlib, zfec, AES only)")
REAL = ["allmydata.client._Client", "immutable.upload/encode/layout", "immutable.downloader.*", "immutable.filenode/literal", "storage_client", "storage.server"]
STUB = ["reactor/time", "foolscap transport (SimNet/SimRef; per-connection FIFO; in half of the runs arrivals are batched: several messages handed over before queued zero-delay turns run)", "os.urandom", "cputhreadpool (SimThreadPool: in a third of the runs the result is delivered by a reactor event after a drawn delay, otherwise synchronously)"]
ASSUMPTIONS = ["per-connection FIFO delivery (TCP)", "PYTHONHASHSEED=0 is part of the replay key"]


def generate(seed, tier):
    # the derivations are observed on the wire of immutable uploads and of mutable creates/writes alike
    if seed % 5 == 4:
        from engines import dirsim
        return dirsim.gen_dir(seed, tier, "C17")          # directory child-cap keys (stored directory contents)
    if seed % 4 == 1:
        return mutsim.gen_single(seed, tier, "C17")
    if seed % 4 == 2:
        return immsim.gen_upfault(seed, tier, "C17")       # grids with full / read-only / slow servers, pre-existing shares
    if seed % 4 == 3:
        return immsim.gen_checkrepair(seed, tier, "C17")   # check --add-lease, repair
    return immsim.gen_roundtrip(seed, tier, "C17")


def execute(case):
    if case.get("engine") == "dirsim":
        from engines import dirsim
        return dirsim.exec_dir(case)
    if case.get("engine") == "mutsim":
        return mutsim.exec_single(case)
    if case.get("profile") == "upfault":
        return immsim.exec_upfault(case)
    if case.get("profile") == "checkrepair":
        return immsim.exec_checkrepair(case)
    return immsim.exec_roundtrip(case)
