"""C01 — immsim roundtrip profile, focus C01 (DESIGN §4 C01)."""
from engines import immsim
PROPERTY = "C01"
ENGINE = "gridsim/imm"
SPIN_IS_VIOLATION = True   # the property promises an outcome: an operation that never returns to the reactor violates it
LEVEL = "exploration"
COUNTS = {"quick": 1200, "thorough": 30000}
CHUNK = 40
TIMEOUT = 60
WALL = {"quick": 170, "thorough": 1700}
RULE = ("seeded runs of the real uploader/downloader on a simulated grid: k<=N<=16, happy<=N, max segment size from 1*k to 128KiB, 1..N+3 servers, "
        "sizes concentrated on 0/55/56, segment and k boundaries; delivery order of every server answer drawn per message (uniform/heavy-tailed/FIFO latency), "
        "write-batch size, read chunk size, share-layout version, overdue timer and finder parallelism randomised per run; reads through a fresh client; "
        "non-trivial = an upload completed and a read/oracle ran; distinct = (probe counts, k, n, size) fingerprint")
RULE += '; in 35% of runs a second, different file (same real segment size, other length and/or other k) is stored and read by the same process afterwards'
TECHNIQUE = "deterministic simulation: seeded schedules over a simulated network/reactor, byte-exact and independent-decoder oracles"
LEVEL_TEXT = "seeded search over inputs, configurations and delivery schedules; sampling, not enumeration"
LEVEL_NOTE = ("real: allmydata.client._Client, Uploader/Encoder/Tahoe2ServerSelector, downloader, StorageFarmBroker/NativeStorageServer, StorageServer; "
              "stub: reactor, foolscap wire (SimRef, per-connection FIFO), os.urandom (seeded), CPU thread pool (simulated: synchronous, or completion as a reactor event after a drawn delay), RSA keygen (pool); "
              "trusted: oracles/sharecheck.py + oracles/refhash.py (hashlib, zfec, AES only)")
REAL = ["allmydata.client._Client", "immutable.upload/encode/layout", "immutable.downloader.*", "immutable.filenode/literal", "storage_client", "storage.server"]
STUB = ["reactor/time", "foolscap transport (SimNet/SimRef; per-connection FIFO; in half of the runs arrivals are batched: several messages handed over before queued zero-delay turns run)", "os.urandom", "cputhreadpool (SimThreadPool: in a third of the runs the result is delivered by a reactor event after a drawn delay, otherwise synchronously)"]
ASSUMPTIONS = ["per-connection FIFO delivery (TCP)", "PYTHONHASHSEED=0 is part of the replay key"]


def generate(seed, tier):
    return immsim.gen_roundtrip(seed, tier, "C01")


def execute(case):
    return immsim.exec_roundtrip(case)
