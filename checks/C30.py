"""C30 — httpsim auth profile (DESIGN §4 C30)."""
from engines import httpsim
PROPERTY = "C30"
ENGINE = "httpsim"
LEVEL = "exploration"
COUNTS = {"quick": 1200, "thorough": 25000}
CHUNK = 25
TIMEOUT = 120
WALL = {"quick": 170, "thorough": 1700}
RULE = ("seeded histories against the real HTTP storage server resource (klein/twisted.web) reached in memory through treq's StubTreq with the real StorageClient classes; "
        "C30: legitimate chunked uploads and mutable writes interleaved with attacker requests to every route under every combination of Authorization "
        "(missing/wrong/malformed/duplicated/non-UTF8/case/prefix/correct) and X-Tahoe-Authorization (missing/wrong names/bad base64/wrong length/duplicated/another "
        "upload's secret/empty/surplus/correct), state hashed before and after each; C31: storage histories (create, drawn-chunk writes incl. conflicting ones, abort, "
        "range reads past the end, list, lease, mutable read-test-write, reads, listing) executed through HTTP on one server and directly on a twin, results and share "
        "directories compared after every step; non-trivial = >=3 probe kinds; distinct = probe-count fingerprint")
RULE += "; plus another client's create request naming shares of an upload in progress, with a drawn Accept header"
TECHNIQUE = "deterministic simulation: seeded request histories against in-memory HTTP server/client pair with simulated reactor; twin-server differential oracle"
LEVEL_TEXT = "seeded search over request histories; sampling, not enumeration"
LEVEL_NOTE = ("real: storage.http_server.HTTPServer (klein routes, authorization decorator, CBOR validation), storage.http_client.StorageClient*, StorageServer; "
              "stub: sockets/TLS (treq StubTreq in-memory agent), reactor, global Cooperator (pumped by the simulator), CPU thread pool (synchronous)")
REAL = ["allmydata.storage.http_server", "allmydata.storage.http_client", "allmydata.storage.server", "klein", "twisted.web", "treq (StubTreq)"]
STUB = ["TCP/TLS (in-memory agent)", "reactor/time", "Cooperator scheduler", "cputhreadpool (synchronous)"]
ASSUMPTIONS = ["both twins run on the same simulated clock; operations start just after a whole second so lease stamps agree"]


def generate(seed, tier):
    return httpsim.gen_auth(seed, tier)


def execute(case):
    return httpsim.exec_auth(case)
