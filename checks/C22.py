"""C22 — storesim profile 'imm' (DESIGN §4 C22)."""
from engines import storesim

PROPERTY = "C22"
ENGINE = "storesim"
LEVEL = "exploration"
COUNTS = {"quick": 4000, "thorough": 120000}
CHUNK = 25
TIMEOUT = 120
WALL = {"quick": 150, "thorough": 1500}
RULE = ("seeded operation histories (5-40 ops quick, 5-60 thorough) generated from VERIF_SEED*1e6+i by label-keyed choices; "
        "each op is executed on a real StorageServer and on a reference model and compared, plus whole-state cross-checks after "
        "every op; a run is non-trivial when >=3 distinct probe kinds fired; distinct = distinct (op-kind sequence, probe-count) fingerprint")
RULE += '; one run in forty: a sparse immutable share of 2^32-2 .. 2^32+100000 bytes (the 32-bit length field of the container header saturates), written and read in windows around 0, 2^32 and the end, with lease operations and restarts in between'
TECHNIQUE = "deterministic simulation: seeded operation/fault histories vs executable reference model, simulated clock"
LEVEL_TEXT = ("seeded search over operation histories with a step-by-step reference model; sampling, not enumeration — "
              "a clean batch is evidence, not proof")
LEVEL_NOTE = ("trusted: the reference model in engines/storesim.py, the RangeMap shim (differentially self-tested), "
              "the model disk substituted at fileutil.get_available_space; real: StorageServer, FoolscapStorageServer, "
              "BucketWriter/Reader, ShareFile, MutableShareFile, lease code, real files on tmpfs")
REAL = ["allmydata.storage.server.StorageServer", "FoolscapStorageServer", "BucketWriter/BucketReader", "ShareFile", "MutableShareFile", "lease/lease_schema", "real files (tmpfs)"]
STUB = ["reactor/clock (SimReactor)", "foolscap canary (harness Canary)", "free-space function (model disk)", "collections_extended.RangeMap (shim)"]
ASSUMPTIONS = ["single-process server: operations are atomic w.r.t. each other (as in production, one reactor thread)",
               "RangeMap shim equals collections_extended semantics (selftest)"]


def generate(seed, tier):
    if seed % 40 == 13:
        return storesim.gen_huge(seed, tier, "C22")        # sparse shares around the 4 GiB mark
    return storesim.gen_case(seed, tier, "imm")


def execute(case):
    if case.get("profile") == "huge":
        return storesim.exec_huge(case)
    return storesim.execute(case, ("C22",))
