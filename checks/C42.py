"""C42 — backupsim (DESIGN §4 C42)."""
from engines import backupsim
PROPERTY = "C42"
ENGINE = "backupsim"
LEVEL = "exploration"
COUNTS = {"quick": 6000, "thorough": 150000}
CHUNK = 100
TIMEOUT = 120
WALL = {"quick": 150, "thorough": 1500}
RULE = ("seeded histories (5-40 operations) over six local paths: create/modify (content, size, mtime, ctime independently), same-stat content change, touch, rename, "
        "delete, clock advance, process restart (close and reopen the sqlite file), check_file(use_timestamps in {True,False}) + did_upload, check_directory + "
        "did_create with 0-4 name->cap entries; reference = per path the record of its most recent upload, per exact contents the dircap; "
        "non-trivial = >=2 probe kinds; distinct = probe-count fingerprint")
TECHNIQUE = "deterministic simulation: seeded histories with simulated local file system, clock and restarts vs reference model"
LEVEL_TEXT = "seeded search over histories with a step-by-step reference model; sampling, not enumeration"
LEVEL_NOTE = "real: allmydata.scripts.backupdb.BackupDB_v2, dbutil, sqlite3 on a real file; stub: os.stat (simulated local file system), clock, random (seeded)"
REAL = ["allmydata.scripts.backupdb.BackupDB_v2", "allmydata.util.dbutil", "sqlite3"]
STUB = ["os.stat (simulated local FS)", "time", "random"]
ASSUMPTIONS = ["restart = clean close/reopen (sqlite's own crash recovery is not the subject)"]
generate = backupsim.gen_backup
execute = backupsim.exec_backup
