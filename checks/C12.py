"""C12 — mutsim concurrent profile (DESIGN §4 C12)."""
from engines import mutsim
PROPERTY = "C12"
ENGINE = "gridsim/mut"
LEVEL = "exploration"
COUNTS = {"quick": 700, "thorough": 14000}
CHUNK = 25
TIMEOUT = 90
WALL = {"quick": 170, "thorough": 1700}
RULE = ("seeded runs of the real mutable-file stack (NodeMaker, MutableFileNode, ServermapUpdater, Publish, Retrieve, in-place MDMF update) on a simulated grid "
        "of 1-12 real storage servers; k<=N<=10, SDMF and MDMF with the MDMF segment size knob drawn from 3k..128KiB so multi-segment files are cheap; every server "
        "answer is delivered in a drawn order; operation histories and faults drawn per seed; non-trivial = at least one mutable operation completed; "
        "distinct = (probe counts, k, n, format, faults fired) fingerprint")
RULE += "; plus shares lost before the race, per-writer unreachable servers (partition), a writer overwriting through a version object held across the other writer's publish with the simulated clock advanced 0 s..1 day; server-side ground truth per applied write"
TECHNIQUE = "deterministic simulation: seeded operation histories and delivery schedules vs byte-array reference model and on-disk ground truth"
LEVEL_TEXT = "seeded search over histories, configurations, schedules and fault placements; sampling, not enumeration"
LEVEL_NOTE = ("real: allmydata.client._Client, nodemaker, mutable.filenode/publish/retrieve/servermap/layout, storage server; stub: reactor, foolscap wire "
              "(SimRef), os.urandom, RSA key generation (committed pool of 2048-bit keys), CPU thread pool (simulated: synchronous, or completion as a reactor event after a drawn delay); ground truth is read from the servers' disks")
REAL = ["allmydata.client._Client", "nodemaker", "mutable.filenode", "mutable.publish", "mutable.retrieve", "mutable.servermap", "mutable.layout", "storage.server", "storage.mutable"]
STUB = ["reactor/time", "foolscap transport (SimNet/SimRef; per-connection FIFO; in half of the runs arrivals are batched: several messages handed over before queued zero-delay turns run)", "os.urandom", "RSA keygen (pool)", "cputhreadpool (SimThreadPool: in a third of the runs the result is delivered by a reactor event after a drawn delay, otherwise synchronously)"]
ASSUMPTIONS = ["per-connection FIFO delivery (TCP)", "RSA-PSS signatures are randomised (OpenSSL RNG) and excluded from digests"]


def generate(seed, tier):
    return mutsim.gen_concurrent(seed, tier)


def execute(case):
    return mutsim.exec_concurrent(case)
