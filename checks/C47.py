"""C47 — mutsim single profile (DESIGN §4 C47)."""
from engines import mutsim
PROPERTY = "C47"
ENGINE = "gridsim/mut"
LEVEL = "exploration"
COUNTS = {"quick": 1600, "thorough": 30000}
CHUNK = 25
TIMEOUT = 90
WALL = {"quick": 170, "thorough": 1700}
RULE = ("seeded runs of the real mutable-file stack (NodeMaker, MutableFileNode, ServermapUpdater, Publish, Retrieve, in-place MDMF update) on a simulated grid "
        "of 1-12 real storage servers; k<=N<=10, SDMF and MDMF with the MDMF segment size knob drawn from 3k..128KiB so multi-segment files are cheap; every server "
        "answer is delivered in a drawn order; operation histories and faults drawn per seed; non-trivial = at least one mutable operation completed; "
        "distinct = (probe counts, k, n, format, faults fired) fingerprint")
RULE += '; plus duplicated share numbers on several servers and servers whose writes fail from some call on; one run in five: 2-3 uncoordinated writers on a possibly partitioned grid (a publish shown another writer\'s shares in its write answers must not report success)'
TECHNIQUE = "deterministic simulation: seeded operation histories and delivery schedules vs byte-array reference model and on-disk ground truth"
LEVEL_TEXT = "seeded search over histories, configurations, schedules and fault placements; sampling, not enumeration"
LEVEL_NOTE = ("real: allmydata.client._Client, nodemaker, mutable.filenode/publish/retrieve/servermap/layout, storage server; stub: reactor, foolscap wire "
              "(SimRef), os.urandom, RSA key generation (committed pool of 2048-bit keys), CPU thread pool (simulated: synchronous, or completion as a reactor event after a drawn delay); ground truth is read from the servers' disks")
REAL = ["allmydata.client._Client", "nodemaker", "mutable.filenode", "mutable.publish", "mutable.retrieve", "mutable.servermap", "mutable.layout", "storage.server", "storage.mutable"]
STUB = ["reactor/time", "foolscap transport (SimNet/SimRef; per-connection FIFO; in half of the runs arrivals are batched: several messages handed over before queued zero-delay turns run)", "os.urandom", "RSA keygen (pool)", "cputhreadpool (SimThreadPool: in a third of the runs the result is delivered by a reactor event after a drawn delay, otherwise synchronously)"]
ASSUMPTIONS = ["per-connection FIFO delivery (TCP)", "RSA-PSS signatures are randomised (OpenSSL RNG) and excluded from digests"]


_FROM_RACE = {"C12.surprise-share-but-success": "C47.unexpected-version-but-success",
              "C12.refused-write-but-success": "C47.refused-write-but-success"}


def generate(seed, tier):
    if seed % 5 == 4:
        # "...and no unexpected version was encountered": two or three uncoordinated writers on a (possibly partitioned)
        # grid; a publish that was shown another writer's shares in the answers to its writes must not report success
        case = mutsim.gen_concurrent(seed, tier)
        case["as"] = "C47"
        return case
    return mutsim.gen_single(seed, tier, "C47")


def execute(case):
    if case.get("profile") == "concurrent":
        r = mutsim.exec_concurrent(case)
        out = []
        for v in r["violations"]:
            if v["clause"] in _FROM_RACE:
                c = _FROM_RACE[v["clause"]]
                out.append(dict(v, clause=c, sig=c))
        r["violations"] = out
        return r
    return mutsim.exec_single(case)
