"""C34 — introsim (DESIGN §4 C34)."""
from engines import introsim
PROPERTY = "C34"
ENGINE = "introsim"
LEVEL = "exploration"
COUNTS = {"quick": 3000, "thorough": 60000}
CHUNK = 50
TIMEOUT = 120
WALL = {"quick": 150, "thorough": 1500}
RULE = ("seeded streams for 1-3 real IntroducerClient subscribers: 1-4 real publishers (real sign_to_foolscap, increasing seqnums) whose announcements arrive (a) relayed "
        "by the real IntroducerService over the simulated transport with disconnect/reconnect, and (b) in batches assembled by an adversary: latest, old (replay), "
        "duplicate, wrong key, flipped message/signature bytes, malformed signature/key encodings, non-tuple elements, and validly signed but malformed announcements "
        "(not JSON, no service-name, missing or string seqnum) in drawn orders; checks authenticity, per-key seqnum monotonicity, that bad elements do not suppress "
        "good ones of the same batch, and convergence after faults stop; non-trivial = >=3 probe kinds; distinct = probe-count fingerprint")
RULE += "; plus periods in which the subscriber's announcement cache file cannot be written"
TECHNIQUE = "deterministic simulation: seeded adversarial announcement streams (forge/replay/reorder/duplicate) against real introducer client and service"
LEVEL_TEXT = "seeded search over announcement streams; sampling, not enumeration"
LEVEL_NOTE = "real: IntroducerClient, IntroducerService, sign/unsign, ed25519; stub: foolscap wire (SimRef; connection establishment is done by the harness calling _got_introducer), reactor"
REAL = ["allmydata.introducer.client.IntroducerClient", "allmydata.introducer.server.IntroducerService", "allmydata.introducer.common", "allmydata.crypto.ed25519"]
STUB = ["foolscap transport and reconnector (SimNet/SimRef)", "reactor/time"]
ASSUMPTIONS = ["Ed25519 unforgeability"]
generate = introsim.gen_intro
execute = introsim.exec_intro
