#!/venv/bin/python
"""Regenerates MANIFEST.json from the check modules present under checks/ (run by hand after adding a check)."""
import json, os, sys, importlib, glob
sys.path.insert(0, os.path.dirname(os.path.abspath(__file__)))
from sim import boot
boot.install()
VERIF = boot.VERIF
NA_REASONS = {
 "C15": "stateless function of one capability string; no schedule, clock, fault or history for a simulator to own (DESIGN §7)",
 "C16": "stateless derivations on one capability object; no nondeterminism or fault dimension (DESIGN §7)",
 "C36": "pure function of (segment, k, N, subset); its quantifier is subset enumeration, not schedules or faults; exercised indirectly inside C01/C03/C09 (DESIGN §7)",
 "C38": "stateless codecs (base32/base62/netstring/UEB/lease/header round-trips); input generation only (DESIGN §7)",
 "C40": "function of (file size, Range header); the asynchronous read path it ends in is decided under C04 (DESIGN §7)",
 "C43": "stateless comparison of two objects; no schedule, clock or fault (DESIGN §7)",
 "C48": "stateless string parsing of configuration values (DESIGN §7)",
}
NOT_BUILT = "claimed by DESIGN.md but its engine is not built/soaked yet in this round; not registered rather than registered unsoaked"
props = [json.loads(l) for l in open(os.path.join(VERIF, "properties.jsonl"))]
checks = []
engines = {}
have = set()
for path in sorted(glob.glob(os.path.join(VERIF, "checks", "C*.py"))):
    name = os.path.basename(path)[:-3]
    m = importlib.import_module("checks." + name)
    if not getattr(m, "REGISTERED", True):
        continue
    have.add(m.PROPERTY)
    engines.setdefault(m.ENGINE, []).append(m.PROPERTY)
    checks.append({
        "property_id": m.PROPERTY,
        "quick_cmd": "./check %s --tier quick" % name,
        "thorough_cmd": "./check %s --tier thorough" % name,
        "evidence_file": "/verif/evidence/%s.json" % m.PROPERTY,
        "replay_cmd_template": "./check %s --replay {path}" % name,
        "engine": m.ENGINE,
        "level_claimed": {"category": m.LEVEL, "text": m.LEVEL_TEXT, "design_ref": getattr(m, "DESIGN_REF", "DESIGN.md §4 " + m.PROPERTY)},
        "level_note": m.LEVEL_NOTE,
        "technique": m.TECHNIQUE,
    })
na = []
for p in props:
    if p["id"] in have:
        continue
    na.append({"property_id": p["id"], "reason": NA_REASONS.get(p["id"], NOT_BUILT)})
hooks_commits = [l.strip() for l in open(os.path.join(VERIF, "hooks_commits.txt"))] if os.path.exists(os.path.join(VERIF, "hooks_commits.txt")) else []
man = {
 "version": 1,
 "setup_cmd": "./check --setup",
 "hooks": {
   "guard": "TAHOE_LAFS_VERIF",
   "enable": "checks import /repo/src directly (no build step) with TAHOE_LAFS_VERIF=1 in the environment; all seams are reached from outside (reactor installation, constructor parameters, module attributes), so there are currently no source hooks",
   "baseline_off_cmd": "cd /repo && /venv/bin/python -m pytest -ra -q -p no:cacheprovider --timeout=900 --continue-on-collection-errors",
   "source_commits": hooks_commits,
   "add_only": True,
 },
 "engines": [{"name": k, "path": "/verif/engines/%s.py" % k.split("/")[0], "serves_properties": sorted(set(v)),
              "kind_free_text": "deterministic simulation (seeded schedule + fault injection) of real code from /repo/src under a simulated Twisted reactor"} for k, v in sorted(engines.items())],
 "checks": checks,
 "notes": "Technique family: deterministic simulation with fault injection. One integer (VERIF_SEED) decides each run; PYTHONHASHSEED is pinned to 0 by re-exec. Exit 0 = held, 1 = VIOLATION line, 2 = harness error (never success). Known findings: /verif/known_findings.json.",
 "not_applicable": na,
}
json.dump(man, open(os.path.join(VERIF, "MANIFEST.json"), "w"), indent=1)
import subprocess
subprocess.run(["python3-vt", "-c", "import json,jsonschema; jsonschema.validate(json.load(open('/verif/MANIFEST.json')), json.load(open('/root/.vp/MANIFEST.schema.json')))"], check=True)
print("MANIFEST.json: %d checks, %d not_applicable; valid" % (len(checks), len(na)))
